"""(re)generate /verif/MANIFEST.json from the registry of built checks"""
import json, os, sys
ROOT = os.path.dirname(os.path.dirname(os.path.abspath(__file__)))
sys.path.insert(0, ROOT)
from sim import checks

TEXT = {
 "C01": ("exploration", "3 (C01)", "seeded op-level simulation of real bt trees (interpreted and Cython-compiled builds) against an eager reference ledger: after every public operation outside an update=False batch and at every date close, value = cash + children, security value = position x price x multiplier, weights = value / parent value, cash and positions equal the ledger, and the recorded rows equal the end-of-date state; plus real Backtest.run()s of stock-algo stacks with chaos algos. Sampling, not proof.",
         "deterministic simulation: seeded op/flush schedules + tick faults vs reference ledger (refinement), both builds"),
 "C02": ("exploration", "3 (C02)", "day-by-day P&L attribution of the root value over every consecutive date pair of simulated histories (recorded-cost form) plus ledger equality of value/cash/positions after every operation (specification-cost form); tree driver and real Backtest runs; nested transfers, flows, coupons, custom prices, liquidations.",
         "deterministic simulation: conservation check over recorded histories + reference ledger"),
 "C03": ("exploration", "3 (C03)", "index recurrence price[t]=price[t-1]*V[t]/(V[t-1]+flows[t]) checked on every date of every simulated run, index 100 x V/flows on the pre-start row, recorded root flows equal the externally issued flow adjustments only (several per date, both signs, on trade dates), under flow shocks from ops, CapitalFlow and chaos algos.",
         "deterministic simulation: flow-shock injection + recurrence / flow-tagging oracle over histories"),
 "C04": ("exploration", "3 (C04)", "fault injection into not-yet-delivered input: twin real backtests that differ only in data dated after a seeded cut (scaled, re-drawn, NaN, zero; prices, bid/offer, signal / weight / stat frames) must have byte-identical node histories up to the cut; stacks drawn from every stock algo with seeded lookbacks and lags.",
         "deterministic simulation: future-corruption twin runs, byte comparison of truncated histories"),
 "C05": ("exploration", "3 (C05)", "every SecurityBase.allocate call occurring in the simulated runs (direct, via rebalance / close / flatten / spread; positions, prices and NaN/zero ticks reached through history; numeric regimes biased to whole multiples, sub-unit amounts, sign flips, closes) is judged against the budget rule with the model's cost function; six regimes where the real code deviates are listed as known findings with witnesses. The sizing itself is a pure function: the simulation contributes states and tick faults (thin fit, stated in DESIGN).",
         "deterministic simulation: allocate entry/exit taps on simulated histories vs budget-rule oracle"),
 "C07": ("exploration", "3 (C07)", "per strategy and date the cash change reconciles with recorded flows, outlays, fees, swept carry and capital passed down; per trade the ledger books q*p*m + half spread (or custom-price difference) and commission(q, p*m) once, on the security's own parent, never as a flow, and the recorded fees / outlays / bid-offer rows must equal those sums; several trades per security per date, nested trees, commission probes counted apart from booked calls.",
         "deterministic simulation: per-date cash ledger reconciliation + per-trade specification booking"),
 "C08": ("exploration", "3 (C08)", "the schedule is the subject: redundant root.update(now) x k at seeded points must leave every public scalar and history frame byte-identical; at points with pending changes a forked tree read directly must equal a fork read after an explicit update, for seeded node x property; rows dated before the clock are snapshotted at every tick and must never change; every series handed out ends at now; a second driver runs hand-driven trees that start on a later row of their data and grow sub-strategies (parent= + setup_from_parent) between the operations.",
         "deterministic simulation: seeded placement of duplicate ticks / forced reads / deferred batches, fork-and-compare"),
 "C09": ("exploration", "3 (C09)", "replica under an adversarial schedule: the same calendar-gated child definition run stand-alone and nested under parents that never fund, fund late, fund tiny amounts, withdraw, flip weights or receive flows; the two index series must be byte-identical and the parent's universe column must carry it.",
         "deterministic simulation: allocation-schedule faults, nested vs stand-alone twin runs, byte comparison"),
 "C10": ("fault_enumeration", "3 (C10)", "two-sided: well-formed simulated runs (tree driver, real Backtest.run of stock-algo stacks, both builds) must complete, record only finite numbers and serve every report accessor; each enumerated ill-formed class (NaN price on an open position, trade at NaN/zero price, custom price without bid/offer data, FI child under market-value parent, duplicate columns, zero base) is injected at a seeded instant into an otherwise healthy run and must raise - an exception is legitimate iff the reference model shows the condition at that instant.",
         "deterministic simulation with fault injection: enumerated ill-formed classes + model-predicted exception legitimacy"),
 "C11": ("exploration", "3 (C11)", "several backtests from one template under seeded construction order, run order and (baton scheduler, real threads released one at a time at spy / commission calls) seeded step interleavings; byte-identical to running alone; deep digests of template and input frames unchanged; second run() is a no-op; sampled plans re-run in fresh interpreters under other PYTHONHASHSEED values.",
         "deterministic simulation: seeded interleaving (baton-passing threads), order permutation, hash-seed / process sweep"),
}

TEXT.update({
 "C06": ("exploration", "3 (C06)", "Rebalance / RebalanceOverTime sit behind an oracle wrapper inside real Backtest runs and are fed plan-controlled target vectors (long, short, sum <= 1, appearing / disappearing targets, sub-strategy targets, optional temp['cash']) on successive dates of moving prices: at the algo's return every target is worth (1-c) x w x base exactly (fractional, costless) or within one unit plus costs, non-targets are closed, cash is the remainder, sub-strategy internals are spread by weight.",
         "deterministic simulation: oracle wrapper around the real algo on drifted portfolios reached through simulated history"),
 "C12": ("exploration", "3 (C12)", "the simulator owns the clock: seeded date indices (gaps, intraday stamps, year / quarter / ISO-week-52/53/1 / leap boundaries, single dates) drive real Backtest runs whose stacks hold probes around every scheduler with seeded flags and parameters; every returned boolean is compared with a reference calendar written from the statement; three short-circuit classes of RunPeriod are listed as known findings.",
         "deterministic simulation: simulated clock + reference calendar (refinement) over every date"),
 "C13": ("exploration", "3 (C13)", "seeded algo programs (nested stacks, Or, Not, Require, run_always anywhere, per-date fault-injected return values) executed by the real Strategy.run inside Backtest.run on trees with children, both builds; invocation log = 30-line reference interpreter; temp empty at every run, perm persists, own stack before children, each child once; RunIfOutOfBounds judged behind a wrapper on drifting portfolios.",
         "deterministic simulation: algo_fail injection + reference interpreter over the spy log"),
 "C14": ("exploration", "3 (C14)", "every selection algo behind the oracle wrapper in real runs over feeds with NaN / zero / negative ticks, late listings and delistings at and around now, seeded parameters and prior selections; 3-10 line references on the same universe window; ties left open. Thin fit, stated in DESIGN.",
         "deterministic simulation: tick faults at the simulated clock + per-algo reference on the same window"),
 "C15": ("exploration", "3 (C15)", "every weighting algo behind the oracle wrapper in real runs with a live drifting portfolio: stated relations (normalisation, inverse-vol products equal, equal risk contributions under the same estimator, caps preserve total, delta limits vs live weights, ex-ante vol = target, PTE trigger) on the same window. Thin fit, stated in DESIGN.",
         "deterministic simulation: windows positioned by the simulated clock, live portfolios, relation oracles"),
 "C16": ("exploration", "3 (C16)", "crash-like terminal state reached by an injected price shock: leveraged / short flat and nested portfolios pushed through, onto or just above zero equity on any date; the flag is judged at every root update against the reference model's equity, the tree must be flat right after the liquidating update and the ledger must still reconcile, afterwards no live spy runs, nothing trades, and positions / value / cash stay constant on every remaining date of the data; sub-strategies and FI roots never flagged; equity is also driven through zero by withdrawals inside the algo run, by a worthless sub-strategy's neighbour and on levered coupon books.",
         "deterministic simulation: price-shock fault injection + model equity path + spy log over the subsequent history"),
 "C17": ("exploration", "3 (C17)", "fixed-income trees with all five security types: op-level runs against the reference ledger (notional per type, notional weights, carry accrued on the end-of-day position and swept once on the next date, additive index) and real Backtest runs with SetNotional + Rebalance behind a wrapper (notional_i = w_i x N) plus the renormalised result formula; one class (FixedIncomeSecurity sized by cash) is a known finding.",
         "deterministic simulation: reference ledger for carry / notional / additive index + oracle wrapper"),
 "C18": ("exploration", "3 (C18)", "every report of finished simulated backtests of every shape (nested, shared tickers, no trades, shorts, spreads) recomputed from the node histories; costless runs are replayed: get_transactions() fed to ReplayTransactions must reproduce positions and values.",
         "deterministic simulation: recomputation over finished histories + transaction-log replay"),
 "C19": ("exploration", "3 (C19)", "trees assembled through every constructor path (node objects reused as templates included) are checked structurally and run by the real Backtest; membership change is the fault: a twin with every string / lazy child constructed up front must give the same histories (1e-10), a spy checks universe scoping inside running strategies, settings pushed from the top must reach nodes created mid-run (lazily created securities and sub-strategies spawned by a running stack); two algos that enumerate existing children are known findings.",
         "deterministic simulation: lazy-child membership fault, lazy vs eager twin runs"),
 "C20": ("exploration", "3 (C20)", "FI trees with seeded unit-risk tables, multipliers, UpdateRisk histories, square / pseudo-inverse hedges (also from a hedge strategy separate from the book, strategy=) and close / roll tables whose dates are timers on the simulated clock (falling between ticks, prices absent after maturity): spies compare node.risk(s) with unit x position x multiplier summed over the tree, hedged measures with zero / the normal equations, positions with the tables, SelectActive with closed / rolled sets.",
         "deterministic simulation: timers on the simulated clock, once-only effects and tree aggregation checked by spies"),
})
NOTE = "trusted base: the reference model / oracle code under /verif/sim, pandas/numpy/ffn as installed, the commission and feed generators; a clean batch is evidence for the sampled schedules and inputs, not proof"

def main():
    props = [json.loads(l) for l in open(os.path.join(ROOT, "properties.jsonl"))]
    m = {
     "version": 1,
     "setup_cmd": "/venv/bin/python -c \"import pandas, numpy, ffn, Cython, sklearn; print('toolchain ok')\"",
     "hooks": {"guard": "BT_VERIF", "enable": "no hooks were added to /repo: every seam is public API (data frames, commission_fn, user algos, update()); run-time taps are installed on a temp snapshot of /repo/bt/*.py (interpreted, and cythonized for the compiled build)", "baseline_off_cmd": "cd /repo && /venv/bin/python -m pytest -q -p no:cacheprovider --timeout=900", "source_commits": [], "add_only": True},
     "engines": [{"name": "btsim", "path": "sim/", "serves_properties": sorted(checks.SPECS), "kind_free_text": "seeded deterministic simulator: plan generator -> executor on real bt (tree driver / engine driver) -> taps -> reference ledger and monitors -> ddmin minimiser -> fresh-process replay"}],
     "checks": [], "not_applicable": [],
     "notes": "bin/check <ID> [--tier quick|thorough] [--replay <file>]; exit 0 held / 1 VIOLATION / 2 harness error; known findings in known_findings.json with witnesses under known/; see DESIGN.md",
    }
    for p in props:
        pid = p["id"]
        if pid in checks.SPECS and pid in TEXT:
            cat, ref, text, tech = TEXT[pid]
            m["checks"].append({
              "property_id": pid, "quick_cmd": "bin/check %s --tier quick" % pid, "thorough_cmd": "bin/check %s --tier thorough" % pid,
              "evidence_file": "evidence/%s.json" % pid, "replay_cmd_template": "bin/check %s --replay {path}" % pid, "engine": "btsim",
              "level_claimed": {"category": cat, "text": text, "design_ref": ref}, "level_note": NOTE, "technique": tech})
        else:
            m["not_applicable"].append({"property_id": pid, "reason": "check not built yet (build in progress); see DESIGN.md section 3"})
    json.dump(m, open(os.path.join(ROOT, "MANIFEST.json"), "w"), indent=1)
    print(len(m["checks"]), "checks;", len(m["not_applicable"]), "not claimed")
main()
