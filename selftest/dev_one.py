import sys, os, json
sys.path.insert(0, os.path.dirname(os.path.dirname(os.path.abspath(__file__))))
from sim import build, rng, drive_tree
compiled = os.environ.get("BUILD","py")=="cy"
snap = build.snapshot(compiled=compiled); bt = build.load(snap, compiled=compiled)
profile=sys.argv[1]; i=int(sys.argv[2])
plan = drive_tree.gen_plan(rng.run_rng(1, profile, i), profile)
print(json.dumps(plan["cfg"])); print(json.dumps(plan["tree"]))
orig = drive_tree.TreeSim.step
def step(self,o):
    nv=len(self.viol)
    r=orig(self,o)
    print(o, "batch" if self.in_batch else "", "stale" if self.root.stale else "", "VIOL "+self.viol[nv]["check"]+" "+self.viol[nv]["detail"][:200] if len(self.viol)>nv else "")
    return r
drive_tree.TreeSim.step=step
sim = drive_tree.run_plan(bt, plan, {"C01","C02","C03","C07","C08","C16","C10"})
print(sim.stop_reason); 
for v in sim.viol[:5]: print(v["check"], v["detail"][:300])
