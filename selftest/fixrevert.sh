#!/bin/bash
# for every "fix:" commit of /repo: reverse-apply it on a scratch copy of the current tree and run the quick check of the
# property it is recorded under (known_findings.json "fixed:" lines); the check must report a violation.
cd "$(dirname "$0")/.."
/venv/bin/python - <<'PY' > /tmp/fixlist.txt
import json,re
for l in json.load(open('known_findings.json'))["fixed"]:
    m=re.match(r"fixed: property=(C\d+) ([0-9a-f]+) (.*)", l)
    print(m.group(1), m.group(2), m.group(3)[:70].replace(" ","_"))
PY
while read prop commit what; do
  D=/tmp/fixrev_$$; rm -rf $D; mkdir -p $D; cp -r /repo/bt $D/bt; rm -f $D/bt/*.so $D/bt/*.c
  if ! (cd $D && git -C /repo show $commit -- bt | patch -R -p1 -s --no-backup-if-mismatch >/dev/null 2>&1); then echo "$prop $commit REVERSE-PATCH-CONFLICT ($what)"; rm -rf $D; continue; fi
  if [ -n "$RUNS" ]; then export VERIF_RUNS=$RUNS; fi; out=$(BT_REPO=$D timeout 900 bin/check $prop 2>&1); rc=$?
  echo "$prop $commit rc=$rc $(echo "$out" | grep 'violation found' | head -1 | cut -c1-160) | $(echo "$out" | grep -v KNOWN | tail -1 | cut -c1-120)"
  rm -rf $D; rm -f replays/*.json
done < /tmp/fixlist.txt
rm -f /tmp/fixlist.txt
