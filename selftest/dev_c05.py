import sys, os, collections, json
sys.path.insert(0, "/verif")
from sim import build, rng, drive_tree, checks
snap = build.snapshot(); bt = build.load(snap)
spec = checks.SPECS["C05"]
cl = collections.Counter(); ex={}
n=int(sys.argv[1]); st=int(sys.argv[2]); step=int(sys.argv[3])
for i in range(st,n,step):
    r = rng.run_rng(20261004, "C05", i)
    plan = spec.gen(r, "quick", i)
    res = spec.run(bt, plan)
    for v in res["viol"]:
        if not spec.owns(v["check"]): continue
        f=v["flags"]; key=(v["check"],)+tuple(sorted((k,str(x)) for k,x in f.items()))
        cl[key]+=1; ex.setdefault(key, (i, v["detail"][:260]))
json.dump([[c,list(k),ex[k]] for k,c in cl.items()], open("/tmp/c05_%d.json"%st,"w"))
