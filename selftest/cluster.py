import sys, os, collections, json
sys.path.insert(0, "/verif")
from sim import build, rng, checks
snap = build.snapshot(); bt = build.load(snap)
prop=sys.argv[1]; n=int(sys.argv[2]); spec = checks.SPECS[prop]
drop=set(sys.argv[3].split(",")) if len(sys.argv)>3 else set()
cl = collections.Counter(); ex={}
for i in range(n):
    r = rng.run_rng(20261004, prop, i); rng.pin_globals(rng.derive(20261004, prop, i, "g"))
    plan = spec.gen(r, "quick", i)
    res = spec.run(bt, plan)
    for v in res["viol"]:
        if not spec.owns(v["check"]): continue
        f=v["flags"]; key=(v["check"],)+tuple(sorted((k,str(x)) for k,x in f.items() if k not in drop))
        cl[key]+=1; ex.setdefault(key, (i, v["detail"][:260]))
for k,c in cl.most_common():
    print(c, k[0], dict(k[1:])); print("     e.g. run", ex[k][0], ex[k][1])
