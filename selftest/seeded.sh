#!/bin/bash
# usage: seeded.sh <seeded-id> <prop> [<prop>...]   -- runs the quick checks against a scratch copy of /repo with seeded/<id>/patch.diff applied
cd "$(dirname "$0")/.."
ID=$1; shift
D=/tmp/seeded_$$; mkdir -p $D; cp -r /repo/bt $D/bt; rm -f $D/bt/*.so $D/bt/*.c
(cd $D && patch -p1 -s < /verif/seeded/$ID/patch.diff) || { echo "PATCH FAILED"; rm -rf $D; exit 3; }
for p in "$@"; do
  out=$(BT_REPO=$D timeout 900 bin/check $p 2>&1); rc=$?
  echo "$ID vs $p: rc=$rc :: $(echo "$out" | grep -v KNOWN | grep 'violation found' | head -1 | cut -c1-300)"
  echo "   $(echo "$out" | grep -v KNOWN | tail -1 | cut -c1-200)"
  rm -f /verif/replays/$p-*.json
done
rm -rf $D
