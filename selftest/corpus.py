"""Sensitivity corpus: hand-written mutants (each passes the 157 upstream tests), applied to a scratch copy of /repo/bt,
never to /repo.  For each the quick check of the named property must report a violation.
usage: corpus.py [name-substring]"""
import os, shutil, subprocess, sys, tempfile
ROOT = os.path.dirname(os.path.dirname(os.path.abspath(__file__)))
M = [
 ("fee-accumulator-overwritten", "core.py", "        self._last_fee += fee", "        self._last_fee = fee", "C07"),
 ("sec-update-early-return-widened", "core.py", "        if date == self.now and self._last_pos == self._position:\n            return", "        if date == self.now and (self._last_pos == self._position or self._position > 50):\n            return", "C01"),
 ("sizing-q+1-test-dropped", "core.py", "if full_outlay < amount and full_outlay_of_1_more > amount:", "if full_outlay < amount:", "C05"),
 ("universe-not-windowed", "core.py", "            self._funiverse = self._universe.loc[: self.now]", "            self._funiverse = self._universe", "C04"),
 ("total-return-window-end+1d", "algos.py", "        prc = target.universe.loc[t0 - self.lookback : t0, selected]\n        target.temp[\"stat\"] = prc.calc_total_return()", "        prc = target._universe.loc[t0 - self.lookback : t0 + pd.DateOffset(days=1), selected]\n        target.temp[\"stat\"] = prc.calc_total_return()", "C04"),
 ("paper-notional-changed", "core.py", "            self._paper_amount = 1000000", "            self._paper_amount = 1000001", "C09"),
 ("paper-stepped-on-flows", "core.py", "            if newpt:\n                self._paper.update(date)\n", "            if newpt or self._net_flows != 0:\n                self._paper.update(date)\n", "C09"),
 ("template-not-copied", "backtest.py", "        self.strategy = deepcopy(strategy)", "        self.strategy = strategy", "C11"),
 ("has-run-not-set", "backtest.py", "        self.has_run = True", "        self.has_run = False", "C11"),
 ("rebalance-delta-by-weight", "core.py", "            delta = weight * base - c.value\n            c.allocate(delta, update=update)", "            delta = weight - c.weight\n            c.allocate(delta * base, update=update)", "C06"),
 ("rebalance-shorts-not-closed", "algos.py", "            if v != 0.0 and not np.isnan(v):\n                target.close(cname, update=False)", "            if v > 0.0 and not np.isnan(v):\n                target.close(cname, update=False)", "C06"),
 ("substrategy-spread-equally", "core.py", "                [c.allocate(amount * c._weight, update=False) for c in self._childrenv]", "                [c.allocate(amount / len(self._childrenv), update=False) for c in self._childrenv]", "C06"),
 ("bankruptcy-threshold-moved", "core.py", "            if (val < 0) and not self.bankrupt and not self.fixed_income and not is_zero(val):", "            if (val < -5000) and not self.bankrupt and not self.fixed_income and not is_zero(val):", "C16"),
 ("backtest-ignores-bankrupt", "backtest.py", "            if not self.strategy.bankrupt:\n                self.strategy.run()", "            if True:\n                self.strategy.run()", "C16"),
 ("notional-without-abs", "core.py", "                notl_val += abs(c.notional_value)", "                notl_val += c.notional_value", "C17"),
 ("coupons-swept-every-update", "core.py", "                if c._issec and newpt:\n                    coupons += c._capital", "                if c._issec:\n                    coupons += c._capital", "C17"),
 ("runperiod-end-offset", "algos.py", "            index_offset = -1\n            if self._run_on_end_of_period:\n                index_offset = 1", "            index_offset = -1\n            if self._run_on_end_of_period:\n                index_offset = 2 if index + 2 < len(target.data.index) else 1", "C12"),
 ("runafterdate-inclusive", "algos.py", "        return target.now > self.date", "        return target.now >= self.date", "C12"),
 ("quarter-without-year", "algos.py", "        if now.year != date_to_compare.year or now.quarter != date_to_compare.quarter:", "        if now.quarter != date_to_compare.quarter:", "C12"),
 ("run-always-result-taken", "core.py", "                elif hasattr(algo, \"run_always\"):\n                    if algo.run_always:\n                        algo(target)", "                elif hasattr(algo, \"run_always\"):\n                    if algo.run_always:\n                        res = algo(target)", "C13"),
 ("or-short-circuits", "algos.py", "            res = res | tempRes", "            res = res | tempRes\n            if res:\n                break", "C13"),
 ("temp-kept-for-leaf-strategies", "core.py", "        # clear out temp data\n        self.temp = {}", "        # clear out temp data\n        self.temp = {} if self.children else self.temp", "C13"),
 ("oob-absolute-deviation", "algos.py", "                deviation = abs((c.weight - targets[cname]) / targets[cname])", "                deviation = abs(c.weight - targets[cname])", "C13"),
 ("hasdata-min-count-strict", "algos.py", "        cnt = cnt[cnt >= self.min_count]", "        cnt = cnt[cnt > self.min_count]", "C14"),
 ("selectn-order-flipped", "algos.py", "        self.ascending = not sort_descending", "        self.ascending = sort_descending", "C14"),
 ("total-return-window-open-ended", "algos.py", "        prc = target.universe.loc[t0 - self.lookback : t0, selected]\n        target.temp[\"stat\"] = prc.calc_total_return()", "        prc = target.universe.loc[t0 - self.lookback :, selected]\n        target.temp[\"stat\"] = prc.calc_total_return()", "C14"),
 ("selectwhere-allows-zero-price", "algos.py", "                    selected = list(universe[universe > 0].index)\n            target.temp[\"selected\"] = list(selected)", "                    selected = list(universe[universe >= 0].index)\n            target.temp[\"selected\"] = list(selected)", "C14"),
 ("limitdeltas-half-live-weight", "algos.py", "            delta = tgt - cur\n\n            # check if we need to limit", "            delta = tgt - cur * 0.5\n\n            # check if we need to limit", "C15"),
 ("limitweights-feasibility", "algos.py", "        if self.limit < 1.0 / len(tw):", "        if self.limit < 0.5 / len(tw):", "C15"),
 ("invvol-lag-sign", "algos.py", "        t0 = target.now - self.lag\n        prc = target.universe.loc[t0 - self.lookback : t0, selected]\n        tw = bt.ffn.calc_inv_vol_weights(prc.to_returns().dropna())", "        t0 = target.now + self.lag\n        prc = target.universe.loc[t0 - self.lookback : t0, selected]\n        tw = bt.ffn.calc_inv_vol_weights(prc.to_returns().dropna())", "C15"),
 ("risk-without-multiplier", "algos.py", "                risk = unit_risk * target.position * target.multiplier", "                risk = unit_risk * target.position", "C20"),
 ("close-date-exclusive", "algos.py", "        is_closed = close_dates.loc[sec_names] <= target.now", "        is_closed = close_dates.loc[sec_names] < target.now", "C20"),
 ("roll-not-marked", "algos.py", "                target.perm[\"rolled\"].add(sec_name)\n                new_quantity", "                new_quantity", "C20"),
 ("selectactive-ignores-rolled", "algos.py", "        selected = [s for s in selected if s not in set.union(rolled, closed)]", "        selected = [s for s in selected if s not in closed]", "C20"),
 ("integer-flag-not-recursive", "core.py", "        self.integer_positions = integer_positions\n        for c in self._childrenv:\n            c.use_integer_positions(integer_positions)", "        self.integer_positions = integer_positions\n        for c in self._childrenv:\n            if c._issec:\n                c.use_integer_positions(integer_positions)", "C19"),
 ("universe-filter-dropped", "core.py", "            funiverse = universe[valid_filter].copy()", "            funiverse = universe.copy()", "C19"),
 ("turnover-max-instead-of-min", "backtest.py", "        min_outlay = pd.DataFrame({\"pos\": outlaysp, \"neg\": outlaysn}).min(axis=1)", "        min_outlay = pd.DataFrame({\"pos\": outlaysp, \"neg\": outlaysn}).max(axis=1)", "C18"),
 ("nan-price-valued-zero", "core.py", "                raise Exception(\"Position is open (non-zero: %s) and latest price is NaN for security %s on %s. Cannot update node value.\" % (self._position, self.name, date))", "                self._value = 0", "C10"),
 ("net-flows-not-reset", "core.py", "        elif date != self.now:\n            self._net_flows = 0", "        elif date != self.now:\n            self._net_flows = 0 if self._last_fee == 0 else self._net_flows", "C03"),
 ("fee-as-flow", "core.py", "        self.parent.adjust(-full_outlay, update=update, flow=False, fee=fee)", "        self.parent.adjust(-full_outlay, update=update, flow=(fee > 1000), fee=fee)", "C03"),
 ("outlay-row-not-idempotent", "core.py", "        if self._outlay != 0:\n            _writeable_values(self._outlays)[inow] += self._outlay\n            # reset outlay back to 0\n            self._outlay = 0", "        if self._outlay != 0:\n            _writeable_values(self._outlays)[inow] += self._outlay\n            # reset outlay back to 0\n            self._outlay = 0 if self._position != 0 else self._outlay", "C07"),
 ("transfer-not-debited-for-grandchildren", "core.py", "                self.parent.adjust(-amount, update=False, flow=False)", "                self.parent.adjust(-amount if self.parent.parent is self.parent or amount > 0 else 0.0, update=False, flow=False)", "C02"),
]
def main():
    sel = sys.argv[1] if len(sys.argv) > 1 else ""
    bad = []
    for name, f, old, new, prop in M:
        if sel and sel not in name and not prop.startswith(sel):
            continue
        d = tempfile.mkdtemp(prefix="corpus_")
        os.mkdir(os.path.join(d, "bt"))
        for x in os.listdir("/repo/bt"):
            if x.endswith(".py"):
                shutil.copy("/repo/bt/" + x, os.path.join(d, "bt", x))
        p = os.path.join(d, "bt", f)
        s = open(p).read()
        if s.count(old) != 1:
            print("%-40s %s PATTERN-NOT-FOUND (%d)" % (name, prop, s.count(old)))
            bad.append(name)
            shutil.rmtree(d)
            continue
        open(p, "w").write(s.replace(old, new))
        env = dict(os.environ, BT_REPO=d)
        env.pop("BT_VERIF_PINNED", None)
        r = subprocess.run([os.path.join(ROOT, "bin", "check"), prop], env=env, stdout=subprocess.PIPE, stderr=subprocess.STDOUT, text=True)
        first = [l for l in r.stdout.splitlines() if l.startswith("violation found")]
        print("%-40s %s rc=%d %s" % (name, prop, r.returncode, (first[0][17:150] if first else "")))
        if r.returncode != 1:
            bad.append(name)
        shutil.rmtree(d)
        for x in os.listdir(os.path.join(ROOT, "replays")):
            os.remove(os.path.join(ROOT, "replays", x))
    print("NOT CAUGHT: " + " ".join(bad) if bad else "ALL CAUGHT")
    return 1 if bad else 0
sys.exit(main())
