#!/bin/bash
# usage: intake.sh <worktree> <seeded-id>   -- verify an independently produced change (tests pass with it, demo fails with it and passes without) and copy it to seeded/<id>/
W=$1; ID=$2
cd $W || exit 2
git diff -- bt > /tmp/intake_$$.diff
[ -s /tmp/intake_$$.diff ] || { echo "no change applied in $W"; exit 2; }
echo "tests with change: $(timeout 600 /venv/bin/python -m pytest -q -p no:cacheprovider tests 2>&1 | tail -1)"
timeout 300 /venv/bin/python demo.py > /tmp/intake_$$.with 2>&1; echo "demo with change: rc=$? $(tail -1 /tmp/intake_$$.with | cut -c1-160)"
git apply -R /tmp/intake_$$.diff
timeout 300 /venv/bin/python demo.py > /tmp/intake_$$.without 2>&1; echo "demo without change: rc=$? $(tail -1 /tmp/intake_$$.without | cut -c1-160)"
git apply /tmp/intake_$$.diff
mkdir -p /verif/seeded/$ID
cp /tmp/intake_$$.diff /verif/seeded/$ID/patch.diff; cp demo.py /verif/seeded/$ID/demo.py
rm -f /tmp/intake_$$.*
