#!/bin/bash
# usage: soak.sh "<seeds>" "<props>"  -- runs bin/check for each and prints one line per run; non-zero exits are listed at the end
cd "$(dirname "$0")/.."
SEEDS=${1:-"1 2 3 4 5"}
PROPS=${2:-$(/venv/bin/python -c "import sys; sys.path.insert(0,'.'); from sim import checks; print(' '.join(sorted(checks.SPECS)))")}
FAIL=""
for s in $SEEDS; do for p in $PROPS; do
  out=$(VERIF_SEED=$s timeout 900 bin/check $p 2>&1); rc=$?
  echo "seed=$s $(echo "$out" | grep -v KNOWN | tail -1 | cut -c1-200)"
  if [ $rc -ne 0 ]; then FAIL="$FAIL $p@$s"; echo "$out" | grep -v KNOWN | tail -4 | cut -c1-600; fi
done; done
echo "FAILED:$FAIL"
