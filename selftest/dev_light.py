import sys, os, time, json, collections
sys.path.insert(0, "/verif")
from sim import build, rng, drive_engine
snap = build.snapshot(); bt = build.load(snap)
n=int(sys.argv[1]); ex=collections.Counter(); t0=time.time()
for i in range(n):
    r = rng.run_rng(1, "all", i)
    plan = drive_engine.gen_all_algos_plan(r, "quick", stateful=True)
    sim, exc = drive_engine.run_light(bt, plan, seed=i)
    if exc is not None:
        k=type(exc).__name__+": "+str(exc)[:90]; ex[k]+=1
        if ex[k]==1: print(i,k)
print(time.time()-t0, sum(ex.values()))
for k,c in ex.most_common(): print(c,k)
