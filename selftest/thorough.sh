#!/bin/bash
# usage: thorough.sh [props]  -- runs the thorough tier of every check once (default seed) and prints one line per check
cd "$(dirname "$0")/.."
PROPS=${1:-$(/venv/bin/python -c "import sys; sys.path.insert(0,'.'); from sim import checks; print(' '.join(sorted(checks.SPECS)))")}
FAIL=""
for p in $PROPS; do
  out=$(timeout 3000 bin/check $p --tier thorough 2>&1); rc=$?
  echo "$(echo "$out" | grep -v KNOWN | tail -1 | cut -c1-220)"
  if [ $rc -ne 0 ]; then FAIL="$FAIL $p"; echo "$out" | grep -v KNOWN | tail -6 | cut -c1-700; fi
done
echo "FAILED:$FAIL"
