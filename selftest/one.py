"""run one run index of a property in-process and print its violations: one.py PROP SEED INDEX [py|cy]"""
import sys, os, json
sys.path.insert(0, os.path.dirname(os.path.dirname(os.path.abspath(__file__))))
from sim import build, rng, checks, runner
prop, seed, i = sys.argv[1], int(sys.argv[2]), int(sys.argv[3])
cy = len(sys.argv) > 4 and sys.argv[4] == "cy"
snap = build.snapshot(compiled=cy); bt = build.load(snap, compiled=cy)
runner._SNAP = snap; runner._BUILD = "cy" if cy else "py"
spec = checks.SPECS[prop]
rng.pin_globals(rng.derive(seed, prop, i, "g"))
plan = spec.gen(rng.run_rng(seed, prop, i), "quick", i)
json.dump(plan, open("/tmp/one_plan.json", "w"), default=str)
res = spec.run(bt, plan)
for v in res["viol"]: print(v["check"], v["detail"][:400], v["flags"])
json.dump(plan, open("/tmp/one_plan.json", "w"), default=str)
print(plan["cfg"]); print("ops" in plan and plan["ops"])
