#!/bin/bash
# regenerate every evidence file with the quick tier against /repo itself (quiet machine), clear the replay directory and validate
# MANIFEST.json and evidence/*.json against the schemas
cd "$(dirname "$0")/.."
fail=""
for p in C01 C02 C03 C04 C05 C06 C07 C08 C09 C10 C11 C12 C13 C14 C15 C16 C17 C18 C19 C20; do
  out=$(VERIF_SEED=${VERIF_SEED:-1} timeout 1200 bin/check $p 2>&1); rc=$?
  echo "$(echo "$out" | grep -v KNOWN | tail -1 | cut -c1-200)"
  [ $rc -ne 0 ] && fail="$fail $p"
  echo "$out" | grep -q "^VIOLATION" && fail="$fail $p(VIOLATION)"
done
rm -f replays/*.json
python3-vt - <<'PY'
import json, jsonschema, glob
jsonschema.validate(json.load(open('MANIFEST.json')), json.load(open('/root/.vp/MANIFEST.schema.json')))
es = json.load(open('/root/.vp/EVIDENCE.schema.json'))
for f in sorted(glob.glob('evidence/C*.json')):
    jsonschema.validate(json.load(open(f)), es)
print("schemas ok:", len(glob.glob('evidence/C*.json')), "evidence files")
PY
echo "FAILED:$fail"
