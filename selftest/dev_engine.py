import sys, os, time, json, collections
sys.path.insert(0, os.path.dirname(os.path.dirname(os.path.abspath(__file__))))
from sim import build, rng, drive_engine
compiled = os.environ.get("BUILD","py")=="cy"
snap = build.snapshot(compiled=compiled); bt = build.load(snap, compiled=compiled)
family = sys.argv[1] if len(sys.argv)>1 else "mixed"
n = int(sys.argv[2]) if len(sys.argv)>2 else 100
start = int(sys.argv[3]) if len(sys.argv)>3 else 0
judge = {"C01","C02","C03","C07","C10","C16"}
cnt = collections.Counter(); stops = collections.Counter(); fired=collections.Counter()
t0=time.time(); shown=0
for i in range(start, start+n):
    r = rng.run_rng(1, family, i); rng.pin_globals(i)
    plan = drive_engine.gen_engine_plan(r, family)
    try:
        sim = drive_engine.run_engine_plan(bt, plan, judge)
    except Exception as e:
        import traceback; traceback.print_exc()
        print("HARNESS ERROR seed", i); json.dump(plan, open("/tmp/plan_fail.json","w"), default=str); break
    stops[sim.stop_reason]+=1
    for k,v in sim.fired.items(): fired[k]+=v
    cnt["obs"]+=sim.nobs; cnt["trades"]+=sim.model.ntrades; cnt["ticks"]+=sim.ticks
    for v in sim.viol: cnt[v["check"]]+=1
    if sim.viol and shown<int(os.environ.get("SHOW","6")):
        shown+=1; print("seed",i, sim.viol[0]["check"], sim.viol[0]["detail"][:300])
print("time %.1fs"%(time.time()-t0)); print(dict(cnt)); print(dict(stops)); print(dict(fired))
