"""Determinism self-test: the same run indices executed in fresh interpreters under two PYTHONHASHSEED values
and with 16 workers vs 1 worker must give identical per-run digests (event log + final histories + counters).
usage: determinism.py [runs] [props...]"""
import json, os, subprocess, sys, tempfile
ROOT = os.path.dirname(os.path.dirname(os.path.abspath(__file__)))
runs = sys.argv[1] if len(sys.argv) > 1 else "150"
sys.path.insert(0, ROOT)
from sim import checks
props = sys.argv[2:] or sorted(checks.SPECS)
bad = []
for p in props:
    outs = []
    for hs, jobs in (("0", "16"), ("31337", "16"), ("0", "1")):
        f = tempfile.mktemp(prefix="det_", suffix=".json")
        env = dict(os.environ, VERIF_RUNS=runs if jobs == "16" else str(min(int(runs), 40)), VERIF_DIGESTS=f, VERIF_HASHSEED=hs, VERIF_JOBS=jobs)
        env.pop("BT_VERIF_PINNED", None)
        r = subprocess.run([os.path.join(ROOT, "bin", "check"), p], env=env, stdout=subprocess.PIPE, stderr=subprocess.STDOUT, text=True)
        d = json.load(open(f)) if os.path.exists(f) else None
        if os.path.exists(f):
            os.remove(f)
        outs.append(d)
    a, b, c = outs
    ok = a is not None and a == b
    if ok and c is not None:
        for bld, dd in c.items():
            for i, v in dd.items():
                if a.get(bld, {}).get(i) != v:
                    ok = False
    n = sum(len(v) for v in (a or {}).values())
    print("%s: %d run digests, hashseed 0 vs 31337: %s, 16 workers vs 1 worker: %s" % (p, n, "identical" if a == b else "DIFFER", "identical" if ok else "DIFFER"))
    if not ok:
        bad.append(p)
        if a and b:
            for bld in a:
                diff = [i for i in a[bld] if a[bld][i] != b.get(bld, {}).get(i)]
                print("   first differing run indices (%s): %s" % (bld, diff[:10]))
print("NON-DETERMINISTIC:" + " ".join(bad) if bad else "ALL DETERMINISTIC")
sys.exit(1 if bad else 0)
