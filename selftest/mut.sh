#!/bin/bash
# usage: mut.sh '<python expr replacing source: s.replace(a,b)>' <file core.py|algos.py|backtest.py> -- <command...>
# makes a scratch copy of /repo/bt under /tmp/mut_$$, applies the replacement, runs the command with BT_REPO set, removes the copy
set -e
OLD="$1"; NEW="$2"; FILE="$3"; shift 3
D=/tmp/mut_$$
mkdir -p $D/bt
cp /repo/bt/*.py $D/bt/
OLD="$OLD" NEW="$NEW" /venv/bin/python - "$D/bt/$FILE" <<'PY'
import sys,os
p=sys.argv[1]; s=open(p).read()
old=os.environ["OLD"]; new=os.environ["NEW"]
n=s.count(old)
if n!=1: print("MUTATION FAILED: pattern occurs %d times"%n); sys.exit(3)
open(p,'w').write(s.replace(old,new))
PY
BT_REPO=$D "$@" || true
rm -rf $D
