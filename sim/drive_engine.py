"""Engine driver (backtest level): bt.Strategy trees whose stacks are assembled
from the stock algos plus simulator-owned spy / chaos / wrapper algos, run by
the real bt.Backtest(...).run() while the reference ledger follows through the
taps."""
import math

from . import algospec, comm as commod, feed as feedmod, taps, trees
from .drive_tree import REL, TOL, Stop, TreeSim


# =========================================================================================
# plan generation helpers
# =========================================================================================
def gen_feed(rng, ndates, ntick, style=None, faults=None, spread_p=0.3, lo=5.0, hi=300.0):
    tickers = [chr(65 + i) for i in range(ntick)]
    dates, style = feedmod.gen_dates(rng, ndates, style)
    prices, fired = feedmod.gen_prices(rng, ndates, tickers, faults=faults or {}, lo=lo, hi=hi)
    f = {"dates": dates, "tickers": tickers, "prices": prices, "style": style}
    if rng.random() < spread_p:
        f["bidoffer"] = [[round(abs(p) * rng.choice([0.0, 0.001, 0.004, 0.01]), 6) if p is not None else 0.0 for p in row] for row in prices]
    return f, fired


def ensure_moving(fspec, rng):
    """risk-based weighting is ill-posed on a constant price series (zero variance): give such a ticker a small walk"""
    rows = fspec["prices"]
    for j in range(len(fspec["tickers"])):
        col = [r[j] for r in rows if r[j] is not None]
        if len(col) >= 2 and max(col) == min(col):
            for i, r in enumerate(rows):
                if r[j] is not None:
                    r[j] = round(r[j] * (1.0 + 0.01 * math.sin(1.0 + i * (1.3 + j)) + 0.002 * rng.random()), 6)


def sched_spec(rng, dates, gated_only=True):
    """a calendar scheduler (stateless w.r.t. call count -> identical in paper copies and stand-alone runs)"""
    k = rng.choice(["RunDaily", "RunDaily", "RunWeekly", "RunMonthly", "RunQuarterly", "RunYearly", "RunOnDate", "RunAfterDate", "Or"])
    flags = {"run_on_first_date": rng.random() < 0.7, "run_on_end_of_period": rng.random() < 0.3, "run_on_last_date": rng.random() < 0.3}
    if k.startswith("Run") and k not in ("RunOnDate", "RunAfterDate"):
        return {"a": k, "kw": flags}
    if k == "RunOnDate":
        n = rng.randint(1, max(1, len(dates) // 3))
        return {"a": "RunOnDate", "dates": sorted(rng.sample(dates, n))}
    if k == "RunAfterDate":
        return {"a": "RunAfterDate", "date": dates[rng.randrange(max(1, len(dates) // 2))]}
    return {"a": "Or", "algos": [{"a": "RunMonthly", "kw": flags}, {"a": "RunOnDate", "dates": [dates[rng.randrange(len(dates))]]}]}


def stateful_sched_spec(rng, dates):
    k = rng.choice(["RunOnce", "RunAfterDays", "RunEveryNPeriods"])
    if k == "RunOnce":
        return {"a": "RunOnce"}
    if k == "RunAfterDays":
        return {"a": "RunAfterDays", "args": [rng.randint(0, max(1, len(dates) // 2))]}
    n = rng.randint(1, 5)
    return {"a": "RunEveryNPeriods", "args": [n], "kw": {"offset": rng.randint(0, n - 1)}}


def max_gap_days(dates):
    import datetime as dt

    ds = [dt.datetime.fromisoformat(d) for d in dates]
    g = 1
    for a, b in zip(ds, ds[1:]):
        g = max(g, int(math.ceil((b - a).total_seconds() / 86400.0)))
    return g


def select_spec(rng, tickers, days, gap=1):
    k = rng.choice(["SelectAll", "SelectAll", "SelectThese", "SelectHasData", "SelectMomentum", "SelectRandomly", "SelectN"])
    if k == "SelectAll":
        return [{"a": "SelectAll"}]
    if k == "SelectThese":
        return [{"a": "SelectThese", "args": [sorted(rng.sample(tickers, rng.randint(1, len(tickers))))]}]
    if k == "SelectHasData":
        return [{"a": "SelectHasData", "kw": {"lookback": {"days": rng.randint(1, max(2, days // 2))}, "min_count": rng.randint(1, 3)}}]
    if k == "SelectMomentum":
        return [{"a": "SelectAll"}, {"a": "SelectMomentum", "args": [rng.randint(1, len(tickers))], "kw": {"lookback": {"days": gap * rng.randint(1, 4) + rng.randint(0, 3)}, "lag": {"days": rng.choice([0, 0, 1, 2])}, "sort_descending": rng.random() < 0.7}}]
    if k == "SelectRandomly":
        return [{"a": "SelectAll"}, {"a": "SelectRandomly", "kw": {"n": rng.randint(1, len(tickers))}}]
    return [{"a": "SelectAll"}, {"a": "StatTotalReturn", "kw": {"lookback": {"days": gap * rng.randint(1, 4) + rng.randint(0, 3)}, "lag": {"days": rng.choice([0, 1])}}}, {"a": "SelectN", "args": [rng.choice([1, 2, 0.5])], "kw": {"sort_descending": rng.random() < 0.5, "filter_selected": rng.random() < 0.5}}]


def weigh_spec(rng, tickers, days, risk=True):
    ks = ["WeighEqually", "WeighEqually", "WeighSpecified", "WeighRandomly"]
    if risk:
        ks += ["WeighInvVol", "WeighERC", "WeighMeanVar"]
    k = rng.choice(ks)
    out = []
    if k == "WeighEqually":
        out = [{"a": "WeighEqually"}]
    elif k == "WeighSpecified":
        sel = rng.sample(tickers, rng.randint(1, len(tickers)))
        ws = [rng.random() for _ in sel]
        tot = sum(ws) / rng.choice([1.0, 1.0, 0.8, 0.5])
        out = [{"a": "WeighSpecified", "weights": {t: round(w / tot, 4) for t, w in zip(sel, ws)}}]
    elif k == "WeighRandomly":
        out = [{"a": "WeighRandomly"}]
    else:
        kw = {"lookback": {"days": rng.randint(10, 16)}, "lag": {"days": rng.choice([0, 0, 1])}}
        out = [{"a": k, "kw": kw}]
    r = rng.random()
    if r < 0.15 and k != "WeighSpecified":
        out.append({"a": "LimitWeights", "kw": {"limit": rng.choice([0.3, 0.5, 0.7])}})
    elif r < 0.3:
        out.append({"a": "LimitDeltas", "kw": {"limit": rng.choice([0.05, 0.2, 0.5])}})
    elif r < 0.4:
        out.append({"a": "ScaleWeights", "args": [rng.choice([0.5, 0.9, -0.5])]})
    return out, k


def chaos_spec(rng, ndates, flows=True, capital=1e6, deferred=True):
    acts = []
    for _ in range(ndates + 1):
        r = rng.random()
        if r < 0.45:
            acts.append(None)
        elif r < 0.6:
            acts.append(["dup", rng.randint(1, 3)])
        elif r < 0.75:
            acts.append(["read", rng.randrange(64), rng.randrange(64)])
        elif r < 0.9 or not flows:
            acts.append(["observe"])
        elif r < 0.94:
            acts.append(["flow", round(rng.choice([1, 1, -1]) * rng.choice([0.05, 0.2, 0.5]) * capital, 2)])
        elif r < 0.97 and deferred:
            acts.append(["flow_deferred", round(rng.choice([1, 1, -1]) * rng.choice([0.05, 0.2]) * capital, 2)])
        elif r < 0.985 and deferred:
            acts.append(["nonflow_deferred", round(rng.choice([1, -1]) * rng.choice([0.001, 0.01]) * capital, 2)])
        else:
            acts.append(["nonflow", round(rng.choice([1, -1]) * rng.choice([0.001, 0.01]) * capital, 2)])
    return {"a": "Chaos", "acts": acts}


def gen_stack(rng, fspec, risk=True, chaos=True, gated=True, capital=1e6, flows=True):
    dates = fspec["dates"]
    tickers = fspec["tickers"]
    days = max(3, len(dates))
    st = []
    warm = 0
    sel = select_spec(rng, tickers, days, gap=max_gap_days(dates))
    wsp, wk = weigh_spec(rng, tickers, days, risk=risk)
    if wk in ("WeighInvVol", "WeighERC", "WeighMeanVar"):
        warm = min(len(dates) - 1, 13)
        st.append({"a": "RunAfterDate", "date": dates[warm]})
        sel = [{"a": "SelectHasData", "kw": {"lookback": {"days": 4000}, "min_count": warm}}]
    st.append(sched_spec(rng, dates) if gated or rng.random() < 0.7 else stateful_sched_spec(rng, dates))
    if chaos and rng.random() < 0.5:
        st.append(chaos_spec(rng, len(dates), flows=flows, capital=capital))
    st += sel
    st += wsp
    if chaos and rng.random() < 0.3:
        st.append(chaos_spec(rng, len(dates), flows=False, capital=capital))
    if rng.random() < 0.15:
        st.append({"a": "run_always", "algo": {"a": "RebalanceOverTime", "kw": {"n": rng.randint(2, 5)}}})
    else:
        st.append({"a": "Rebalance"})
    if chaos and rng.random() < 0.3:
        st.append(chaos_spec(rng, len(dates), flows=flows, capital=capital))
    return st


def gen_engine_plan(rng, family="mixed", tier="quick", risk_p=0.25):
    big = tier == "thorough"
    ndates = rng.randint(4, 40 if big else 24)
    ntick = rng.randint(2, 6 if big else 4)
    faults = {"late_listing": 0.15, "nan_tick": 0.05, "zero_tick": 0.03}
    risk = rng.random() < risk_p
    style = None
    if risk:
        # risk-based weighting needs a gap-free window: business-day clock, listings only as prefixes
        faults = {"late_listing": 0.2}
        style = "bday"
        ndates = max(ndates, 18)
    fspec, fired = gen_feed(rng, ndates, ntick, style=style, faults=faults)
    if risk:
        ensure_moving(fspec, rng)
    tickers = fspec["tickers"]
    capital = rng.choice([1e5, 1e6, 1e6, 250000.0])
    nested = rng.random() < 0.35
    root = {"k": "S", "name": "top", "cls": "Strategy", "fi": False, "how": "list", "children": []}
    if nested:
        nsub = rng.randint(1, 2)
        for i in range(nsub):
            sub = {"k": "S", "name": "sub%d" % i, "cls": "Strategy", "fi": False, "how": rng.choice(["list", "dict"]), "children": []}
            sub["algos"] = gen_stack(rng, fspec, risk=False, chaos=False, gated=True, capital=capital)
            decl = rng.choice(["open", "str", "obj"])
            if decl != "open":
                for t in rng.sample(tickers, rng.randint(1, len(tickers))):
                    sub["children"].append({"k": "X", "name": t, "cls": "Security", "mult": 1.0, "decl": decl})
                _restrict(sub, [c["name"] for c in sub["children"]])
            root["children"].append(sub)
        if rng.random() < 0.5:
            for t in rng.sample(tickers, rng.randint(1, len(tickers))):
                root["children"].append({"k": "X", "name": t, "cls": "Security", "mult": 1.0, "decl": rng.choice(["str", "obj"])})
        names = [c["name"] for c in root["children"]]
        ws = [rng.random() for _ in names]
        tot = sum(ws) / rng.choice([1.0, 0.9, 0.6])
        st = [sched_spec(rng, fspec["dates"])]
        if rng.random() < 0.5:
            st.append(chaos_spec(rng, ndates, capital=capital))
        if rng.random() < 0.5:
            st += [{"a": "SelectAll"}, {"a": "WeighEqually"}]
        else:
            st += [{"a": "WeighSpecified", "weights": {n: round(w / tot, 4) for n, w in zip(names, ws)}}]
        st.append({"a": "Rebalance"})
        root["algos"] = st
    else:
        decl = rng.choice(["open", "open", "str", "obj", "lazy"])
        root["algos"] = gen_stack(rng, fspec, risk=risk, capital=capital)
        if decl != "open":
            for t in rng.sample(tickers, rng.randint(1, len(tickers))):
                root["children"].append({"k": "X", "name": t, "cls": "Security", "mult": rng.choice([1.0, 1.0, 10.0]) if decl != "str" else 1.0, "decl": decl})
            _restrict(root, [c["name"] for c in root["children"]])
    if rng.random() < 0.2:
        root["algos"].insert(1, {"a": "CapitalFlow", "args": [round(rng.choice([1, -1]) * rng.choice([0.01, 0.1]) * capital, 2)]})
    munit = feedmod.min_unit(fspec["prices"])
    cfg = {"integer": rng.random() < 0.5, "comm": commod.gen(rng, munit) if rng.random() < 0.6 else None, "capital": capital, "fi": False, "obs_price": rng.random() < 0.3, "obs_eod": rng.random() < 0.6, "profile": family}
    return {"driver": "engine", "cfg": cfg, "tree": root, "feed": fspec, "fired": fired}


def _restrict(s, names):
    """stacks that name tickers explicitly must stay inside the strategy's declared universe"""
    for a in s.get("algos", []):
        if a.get("a") == "SelectThese":
            keep = [t for t in a["args"][0] if t in names] or names[:1]
            a["args"] = [keep]
        if a.get("a") == "WeighSpecified":
            w = {t: v for t, v in a["weights"].items() if t in names}
            if not w:
                w = {names[0]: 0.5}
            a["weights"] = w
        if a.get("a") in ("SelectMomentum",):
            a["args"] = [max(1, min(a["args"][0], len(names)))]


# =========================================================================================
# execution
# =========================================================================================
class EngineSim(TreeSim):
    def __init__(self, bt, plan, judge):
        TreeSim.__init__(self, bt, plan, judge)
        self.spy_log = []
        self.probe_log = []
        self.spy_hook = None
        self.wrap_monitor = None
        self.bkt = None
        self.completed = False

    engine = True
    light = False  # light runs: no taps, no model (twin-run comparisons only need the histories)

    def tindex(self, now):
        return self._didx.get(now, -2)

    def observe(self):
        if self.light:
            return True
        return TreeSim.observe(self)

    def algos_for(self, path):
        n = self.plan["tree"]
        for p in path[1:]:
            n = [c for c in n["children"] if c["name"] == p][0]
        return [algospec.build(self.bt, s, self) for s in n.get("algos", [])]

    def extra_data(self):
        """additional_data entries beyond the feed frames (signals, weights, ...): plan['extra']"""
        import numpy as np
        import pandas as pd

        out = {}
        idx = pd.DatetimeIndex([pd.Timestamp(d) for d in self.feed.dates])
        for k, v in (self.plan.get("extra") or {}).items():
            kind = v["kind"]
            if kind == "frame":
                rows = v.get("rows")
                ridx = idx if rows is None else pd.DatetimeIndex([pd.Timestamp(d) for d in rows])
                if v.get("dtype") == "object":
                    out[k] = pd.DataFrame([list(r) for r in v["data"]], index=ridx, columns=v["cols"])
                else:
                    out[k] = pd.DataFrame(np.array([[float("nan") if x is None else x for x in r] for r in v["data"]], dtype=v.get("dtype", float)).reshape(len(ridx), len(v["cols"])), index=ridx, columns=v["cols"])
            elif kind == "series":
                rows = v.get("rows")
                ridx = idx if rows is None else pd.DatetimeIndex([pd.Timestamp(d) for d in rows])
                out[k] = pd.Series([float("nan") if x is None else x for x in v["data"]], index=ridx)
            elif kind == "unit_risk":
                out[k] = {}
                for m, fr in v["measures"].items():
                    df = pd.DataFrame(np.array([[float("nan") if x is None else x for x in r] for r in fr["data"]], dtype=float).reshape(len(idx), len(fr["cols"])), index=idx, columns=fr["cols"])
                    if fr.get("pre"):
                        # a table with more history than the prices: rows dated before the first date of the data
                        pidx = pd.DatetimeIndex([pd.Timestamp(d) for d, _row in fr["pre"]])
                        df = pd.concat([pd.DataFrame(np.array([row for _d, row in fr["pre"]], dtype=float).reshape(len(pidx), len(fr["cols"])), index=pidx, columns=fr["cols"]), df])
                    out[k][m] = df
            elif kind == "blotter":
                # a list of executed trades (Date, Security | quantity, price) in whatever order the rows come
                mi = pd.MultiIndex.from_tuples([(pd.Timestamp(r[0]), r[1]) for r in v["rows"]], names=["Date", "Security"])
                out[k] = pd.DataFrame({"quantity": [float(r[2]) for r in v["rows"]], "price": [float(r[3]) for r in v["rows"]]}, index=mi)
            elif kind == "table":
                df = pd.DataFrame(v["data"], index=v["index"], columns=v["cols"])
                for c in v.get("datecols", []):
                    df[c] = pd.to_datetime(df[c])
                out[k] = df
        return out

    def setup(self):
        bt = self.bt
        fr = self.feed.frames(synthetic=False)
        data = fr["prices"]
        add = {k: v for k, v in fr.items() if k != "prices"}
        xd = self.extra_data()
        self.frames_by_name = xd
        add.update(xd)
        strategy = trees.build(bt, self.plan["tree"], algos_for=self.algos_for)
        cfg = self.cfg
        self.commfn = commod.Counting(cfg["comm"], self) if cfg.get("comm") else None
        bkt = bt.Backtest(strategy, data, name=cfg.get("name"), initial_capital=cfg["capital"], commissions=self.commfn, integer_positions=cfg["integer"], progress_bar=False, additional_data=add or None)
        self.template = strategy
        self.bkt = bkt
        self.root = bkt.strategy
        self.dates = list(bkt.dates)
        self._didx = {d: i - 1 for i, d in enumerate(self.dates)}
        self.ti = 0
        self.strats = trees.strategies(self.plan["tree"])
        # phase marker: is the date's algo run (Backtest: update, run, update) in progress?
        self.in_run = False
        root_run = self.root.run
        sim = self

        def run_marked():
            sim.in_run = True
            try:
                return root_run()
            finally:
                sim.in_run = False

        try:
            self.root.run = run_marked
        except AttributeError:
            pass
        if self.light:
            taps.set_current(None)
            return
        if cfg.get("obs_eod"):
            self.tick_hook = self.end_of_date
        taps.set_current(self)

    def end_of_date(self, t):
        # called just before the clock moves on: the previous date is complete (Backtest refreshed it)
        if self.ticks > 1 and self.stop_reason is None:
            try:
                self.observe()
            except Stop as s:
                self.stop_reason = s.why

    def run_engine(self):
        try:
            self.guarded(self.bkt.run, "Backtest.run")
            self.completed = True
        except Stop as s:
            self.stop_reason = s.why
        now = self.root.now
        self.ti = self._didx.get(now, -1) + 1 if now != 0 else 0

    def finish(self):
        if self.stop_reason is not None:
            return
        try:
            self.guarded(lambda: self.root.value, "final refresh")
        except Stop as s:
            self.stop_reason = s.why
            return
        self.model.close_date()
        self.compare_histories()
        if "C10" in self.judge and self.completed:
            self.check_finite()
            self.check_reports_complete()

    def check_finite(self):
        """a completed well-formed run records only finite numbers (the feed's own NaN prices excepted)"""
        import numpy as np

        for n in self.root.members:
            df = n.data
            for col in df.columns:
                if col == "price" and not hasattr(n, "capital"):
                    continue
                a = df[col].to_numpy(dtype=float, na_value=float("nan"))
                if not np.isfinite(a).all():
                    i = int(np.argmin(np.isfinite(a)))
                    self.c10("nonfinite", "%s.%s[%s] = %r" % (n.full_name, col, df.index[i], a[i]), {"col": col})
                    return

    def check_reports_complete(self):
        bt = self.bt
        bkt = self.bkt
        reports = [
            ("stats", lambda: bkt.stats),
            ("weights", lambda: bkt.weights),
            ("security_weights", lambda: bkt.security_weights),
            ("positions", lambda: bkt.positions),
            ("turnover", lambda: bkt.turnover),
            ("herfindahl_index", lambda: bkt.herfindahl_index),
            ("get_transactions", lambda: bkt.strategy.get_transactions()),
            ("Result", lambda: bt.backtest.Result(bkt)),
            ("Result.get_transactions", lambda: bt.backtest.Result(bkt).get_transactions()),
            ("Result.get_weights", lambda: bt.backtest.Result(bkt).get_weights()),
            ("Result.get_security_weights", lambda: bt.backtest.Result(bkt).get_security_weights()),
            ("Result.stats", lambda: bt.backtest.Result(bkt).stats),
        ]
        cur = taps.CUR
        taps.set_current(None)
        try:
            for name, fn in reports:
                try:
                    fn()
                except Exception as e:  # noqa
                    self.c10("report_raises", "%s raised %s: %s" % (name, type(e).__name__, str(e)[:160]), {"report": name, "exc": type(e).__name__, "has_securities": bool(self.root.securities)})
        finally:
            taps.set_current(cur)

    # engine runs start from Backtest's own initial flow on the pre-start row
    def check_initial_flow(self):
        fl = self.series(self.root, "flows")
        if abs(fl[0] - self.cfg["capital"]) > REL * (abs(self.cfg["capital"]) + 1):
            self.violation("index_start", "flows on the pre-start row %r != initial capital %r" % (fl[0], self.cfg["capital"]))


def run_engine_plan(bt, plan, judge, prepare=None):
    taps.install(bt)
    sim = EngineSim(bt, plan, judge)
    try:
        try:
            try:
                sim.setup()
            except Exception as e:  # noqa
                sim.violation("C10.unexpected_exception", "Backtest construction: %s: %s" % (type(e).__name__, str(e)[:200]), {"exc": type(e).__name__, "stem": str(e)[:40]})
                raise Stop("construction_failed")
            if prepare is not None:
                prepare(sim)
            sim.run_engine()
        except Stop as s:
            sim.stop_reason = s.why
        sim.finish()
    finally:
        taps.set_current(None)
    return sim


def simplifications(plan):
    """candidate simpler engine plans (minimiser): fewer dates, no costs, no chaos, fewer tickers' faults"""
    out = []
    cfg = plan["cfg"]
    f = plan["feed"]
    n = len(f["dates"])
    if n > 3:
        for keep in (n // 2, n - 1):
            if keep >= 2:
                f2 = dict(f)
                for k in ("dates", "prices", "bidoffer", "coupons", "cost_long", "cost_short"):
                    if f.get(k) is not None:
                        f2[k] = f[k][:keep]
                out.append(dict(plan, feed=f2))
    if cfg.get("comm"):
        out.append(dict(plan, cfg=dict(cfg, comm=None)))
    if f.get("bidoffer") is not None:
        out.append(dict(plan, feed=dict(f, bidoffer=None)))
    if cfg.get("obs_eod"):
        out.append(dict(plan, cfg=dict(cfg, obs_eod=False)))

    def strip(node):
        res = []
        algos = node.get("algos", [])
        for i, a in enumerate(algos):
            if a.get("a") in ("Chaos", "CapitalFlow", "LimitDeltas", "LimitWeights", "ScaleWeights"):
                n2 = dict(node, algos=algos[:i] + algos[i + 1:])
                res.append(n2)
        for j, c in enumerate(node.get("children", [])):
            if c["k"] == "S":
                for c2 in strip(c):
                    ch = list(node["children"])
                    ch[j] = c2
                    res.append(dict(node, children=ch))
        return res

    for t2 in strip(plan["tree"]):
        out.append(dict(plan, tree=t2))
    return out


def check_dup_columns(bt, plan):
    """ill-formed class: duplicate tickers must be refused by the Backtest constructor"""
    import pandas as pd

    from . import feed as fm

    f = fm.Feed(plan["feed"])
    data = f.frames()["prices"]
    data = pd.concat([data, data.iloc[:, :1]], axis=1)
    try:
        bt.Backtest(bt.Strategy("s", []), data)
    except Exception as e:  # noqa
        return "duplicate" in str(e)
    return False


def run_light(bt, plan, seed=0):
    """run the real Backtest without model/taps; returns (sim, exception or None)"""
    from . import rng as rngmod

    taps.install(bt)
    sim = EngineSim(bt, plan, set())
    sim.light = True
    rngmod.pin_globals(seed)
    exc = None
    try:
        sim.setup()
        sim.bkt.run()
        sim.completed = True
    except Exception as e:  # noqa
        exc = e
    finally:
        taps.set_current(None)
    return sim, exc


def histories(root, upto=None):
    """{full_name: {column: ndarray}} of every node's recorded history, rows <= upto"""
    out = {}
    for n in root.members:
        df = n.data
        if upto is not None:
            df = df.loc[:upto]
        cols = {}
        for c in df.columns:
            if c == "price" and not hasattr(n, "capital"):
                continue  # a lazily created security's own price column is input data, not a result
            cols[c] = df[c].to_numpy(dtype=float, na_value=float("nan"))
        out[n.full_name] = cols
    return out


def diff_histories(a, b):
    """first difference between two history dicts; a node absent from one side counts as all-zero rows"""
    import numpy as np

    for name in sorted(set(a) | set(b)):
        ca, cb = a.get(name), b.get(name)
        if ca is None or cb is None:
            present = ca if ca is not None else cb
            for c, arr in present.items():
                z = arr[~np.isnan(arr)]
                if np.any(z != 0):
                    return "%s exists in one run only and has non-zero %s" % (name, c)
            continue
        for c in sorted(set(ca) | set(cb)):
            x, y = ca.get(c), cb.get(c)
            if x is None or y is None:
                return "%s column %s in one run only" % (name, c)
            if x.shape != y.shape:
                return "%s.%s length %d vs %d" % (name, c, len(x), len(y))
            if x.tobytes() != y.tobytes():
                bad = [i for i in range(len(x)) if not (x[i] == y[i] or (x[i] != x[i] and y[i] != y[i]))]
                if bad:
                    i = bad[0]
                    return "%s.%s row %d: %r vs %r" % (name, c, i, x[i], y[i])
    return None


# =========================================================================================
# the "all stock algos" family (C04 causality, C11 isolation, C10 robustness)
# =========================================================================================
def _frame(cols, data, rows=None, dtype="float"):
    d = {"kind": "frame", "cols": list(cols), "data": data}
    if rows is not None:
        d["rows"] = rows
    if dtype != "float":
        d["dtype"] = dtype
    return d


def gen_all_algos_plan(rng, tier="quick", stateful=False, random_algos=True):
    """stacks drawn from *every* stock scheduling / selection / statistic / weighting / rebalancing algo,
    with the signal / target-weight / stat frames they need"""
    big = tier == "thorough"
    ndates = rng.randint(16, 40 if big else 28)
    ntick = rng.randint(3, 5)
    fspec, fired = gen_feed(rng, ndates, ntick, style=rng.choice(["bday", "bday", "gaps", "intraday"]), faults={"late_listing": 0.15}, spread_p=0.4)
    ensure_moving(fspec, rng)
    dates, tickers = fspec["dates"], fspec["tickers"]
    gap = max_gap_days(dates)
    extra = {}
    capital = rng.choice([1e5, 1e6])

    def stack(names, nested_ok=True):
        st = []
        warm = 14
        # scheduling
        r = rng.random()
        if r < 0.55:
            st.append(sched_spec(rng, dates))
        elif r < 0.8 or not stateful:
            st.append({"a": "RunAfterDate", "date": dates[rng.randint(0, warm)]})
        else:
            ss = stateful_sched_spec(rng, dates)
            k = rng.random()
            if k < 0.3:
                ss = {"a": "Or", "algos": [ss, {"a": "RunOnDate", "dates": [dates[rng.randrange(len(dates))]]}]}
            elif k < 0.45 and ss["a"] == "RunAfterDays":
                ss = {"a": "Not", "algo": {"a": "Not", "algo": ss}}
            st.append(ss)
        if rng.random() < 0.2:
            st.append({"a": "Not", "algo": {"a": "RunOnDate", "dates": [dates[rng.randrange(len(dates))]]}})
        # selection
        sk = rng.choice(["SelectAll", "SelectThese", "SelectHasData", "SelectMomentum", "SelectMomentum", "SelectN_stat", "SelectN_stat", "SelectWhere", "SelectWhere", "SelectRandomly" if random_algos else "SelectAll", "SelectRegex", "SelectTypes", "SetStat", "SetStat", "SetStat"])
        if sk == "SelectAll":
            st.append({"a": "SelectAll"})
        elif sk == "SelectThese":
            st.append({"a": "SelectThese", "args": [sorted(rng.sample(names, rng.randint(1, len(names))))]})
        elif sk == "SelectHasData":
            st.append({"a": "SelectHasData", "kw": {"lookback": {"days": gap * rng.randint(1, 5)}, "min_count": rng.randint(1, 3)}})
        elif sk == "SelectMomentum":
            st += [{"a": "SelectAll"}, {"a": "SelectMomentum", "args": [rng.randint(1, len(names))], "kw": {"lookback": {"days": gap * rng.randint(1, 4) + rng.randint(0, 3)}, "lag": {"days": rng.choice([0, 0, 1, 2])}, "sort_descending": rng.random() < 0.7, "all_or_none": rng.random() < 0.2}}]
        elif sk == "SelectN_stat":
            st += [{"a": "SelectAll"}, {"a": "StatTotalReturn", "kw": {"lookback": {"days": gap * rng.randint(1, 4) + 1}, "lag": {"days": rng.choice([0, 1])}}}, {"a": "SelectN", "args": [rng.choice([1, 2, 0.5])], "kw": {"sort_descending": rng.random() < 0.5, "filter_selected": rng.random() < 0.5}}]
        elif sk == "SelectWhere":
            nm = "sig%d" % len(extra)
            srows = sorted(rng.sample(dates, rng.randint(max(2, len(dates) // 3), len(dates)))) if rng.random() < 0.4 else None
            extra[nm] = _frame(names, [[rng.random() < 0.6 for _ in names] for _ in (srows or dates)], rows=srows, dtype="bool")
            st.append({"a": "SelectWhere", "args": [nm]})
        elif sk == "SelectRandomly":
            st += [{"a": "SelectAll"}, {"a": "SelectRandomly", "kw": {"n": rng.randint(1, len(names))}}]
        elif sk == "SelectRegex":
            st += [{"a": "SelectAll"}, {"a": "SelectRegex", "args": ["[%s]" % "".join(rng.sample(names, rng.randint(1, len(names))))]}]
        elif sk == "SelectTypes":
            st += [{"a": "SelectAll"}]
        elif sk == "SetStat":
            nm = "stat%d" % len(extra)
            srows = sorted(rng.sample(dates, rng.randint(max(2, len(dates) // 4), len(dates)))) if rng.random() < 0.7 else None
            extra[nm] = _frame(names, [[round(rng.gauss(0, 1), 4) for _ in names] for _ in (srows or dates)], rows=srows)
            st += [{"a": "SelectAll"}, {"a": "SetStat", "args": [nm], "kw": {"lag": {"days": rng.choice([0, 0, 1])}}}, {"a": "SelectN", "args": [rng.randint(1, len(names))], "kw": {"filter_selected": True}}]
        if rng.random() < 0.2:
            st.append({"a": "Require", "pred": "nonempty", "item": "selected"})
        # weighting
        wk = rng.choice(["WeighEqually", "WeighEqually", "WeighSpecified", "WeighTarget", "WeighInvVol", "WeighERC", "WeighMeanVar", "WeighRandomly" if random_algos else "WeighEqually"])
        risky = wk in ("WeighInvVol", "WeighERC", "WeighMeanVar")
        if risky:
            st.insert(0, {"a": "RunAfterDate", "date": dates[warm]})
            st = [a for a in st if a.get("a") not in ("SelectWhere", "SelectRandomly", "SelectMomentum", "StatTotalReturn", "SelectN", "SetStat", "SelectRegex", "SelectThese", "SelectAll", "SelectHasData", "Require")]
            st.append({"a": "SelectHasData", "kw": {"lookback": {"days": 4000}, "min_count": warm}})
            st.append({"a": wk, "kw": {"lookback": {"days": gap * 10 + rng.randint(0, 6)}, "lag": {"days": rng.choice([0, 0, 1])}}})
        elif wk == "WeighSpecified":
            sel = rng.sample(names, rng.randint(1, len(names)))
            ws = [rng.random() for _ in sel]
            tot = sum(ws) / rng.choice([1.0, 0.8])
            st.append({"a": "WeighSpecified", "weights": {t: round(w / tot, 4) for t, w in zip(sel, ws)}})
        elif wk == "WeighTarget":
            nm = "tw%d" % len(extra)
            rows = sorted(rng.sample(dates, rng.randint(2, len(dates))))
            data = []
            for _ in rows:
                ws = [rng.random() if rng.random() < 0.65 else None for _ in names]  # dated targets drop names
                tot = sum(w for w in ws if w is not None) or 1.0
                data.append([None if w is None else round(w / tot * rng.choice([1.0, 0.7]), 4) for w in ws])
            if rng.random() < 0.4:
                # targets stamped on calendar dates that are not dates of the data (a month-end on a weekend, ...): there is no
                # date on which such a row is 'dated now', so it must never be applied
                import datetime as _dt

                for k2 in range(len(rows)):
                    i2 = dates.index(rows[k2])
                    if i2 + 1 < len(dates) and rng.random() < 0.4:
                        a2, b2 = _dt.datetime.fromisoformat(dates[i2]), _dt.datetime.fromisoformat(dates[i2 + 1])
                        mid = a2 + (b2 - a2) / 2
                        if a2 < mid < b2:
                            rows[k2] = mid.isoformat()
                            fired["target_row_off_the_timeline"] = 1
            extra[nm] = _frame(names, data, rows=rows)
            st.append({"a": "WeighTarget", "args": [nm]})
        else:
            st.append({"a": wk})
        r = rng.random()
        if r < 0.12 and wk not in ("WeighSpecified", "WeighTarget"):
            st.append({"a": "LimitWeights", "kw": {"limit": rng.choice([0.4, 0.6, 0.8])}})
        elif r < 0.25 or (wk == "WeighTarget" and r < 0.55):
            # (dated targets drop names: LimitDeltas then adds limited entries for held names absent from the targets)
            st.append({"a": "LimitDeltas", "kw": {"limit": rng.choice([0.05, 0.2, 0.5])}})
        elif r < 0.32:
            st.append({"a": "ScaleWeights", "args": [rng.choice([0.5, 0.9])]})
        elif r < 0.42 and stateful:
            st.insert(0, {"a": "RunAfterDate", "date": dates[warm]})
            st.append({"a": "TargetVol", "args": [rng.choice([0.1, 0.2])], "kw": {"lookback": {"days": gap * 10}, "lag": {"days": rng.choice([0, 1])}}})
        if rng.random() < 0.15:
            nmw = "ptw%d" % len(extra)
            # targets may only become available after a warm-up (leading empty rows: no tracking error can be measured, the
            # algo must stay silent) and may change from date to date
            lead = rng.randint(1, max(1, (2 * len(dates)) // 3)) if rng.random() < 0.5 else 0
            vary = rng.random() < 0.5
            rows_w = []
            for i2 in range(len(dates)):
                if i2 < lead:
                    rows_w.append([None for _ in names])
                elif vary:
                    raw = [rng.random() + 0.05 for _ in names]
                    rows_w.append([round(x / sum(raw), 4) for x in raw])
                else:
                    rows_w.append([round(1.0 / len(names), 4) for _ in names])
            extra[nmw] = _frame(names, rows_w)
            st.append({"a": "Or", "algos": [{"a": "RunOnDate", "dates": [dates[0]]}, {"a": "PTE_Rebalance", "args": [round(10 ** rng.uniform(-2.5, 0.0), 4), "@" + nmw], "kw": {"lookback": {"days": gap * 8}, "lag": {"days": rng.choice([0, 1])}}}]})
        if rng.random() < 0.1:
            st.append({"a": "RunIfOutOfBounds", "args": [rng.choice([0.05, 0.2])]})
        if rng.random() < 0.1:
            st.append({"a": "CloseDead"})
        if rng.random() < 0.12:
            st.append({"a": "CapitalFlow", "args": [round(rng.choice([1, -1]) * rng.choice([0.01, 0.05]) * capital, 2)]})
        if rng.random() < 0.15 and stateful:
            st.append({"a": "run_always", "algo": {"a": "RebalanceOverTime", "kw": {"n": rng.randint(2, 5)}}})
        else:
            st.append({"a": "Rebalance"})
        return st

    root = {"k": "S", "name": "top", "cls": "Strategy", "fi": False, "how": "list", "children": []}
    if rng.random() < 0.3:
        for i in range(rng.randint(1, 2)):
            sub = {"k": "S", "name": "sub%d" % i, "cls": "Strategy", "fi": False, "how": "list", "children": []}
            sub["algos"] = stack(tickers)
            root["children"].append(sub)
        names = [c["name"] for c in root["children"]]
        ws = [rng.random() for _ in names]
        tot = sum(ws) / 0.9
        root["algos"] = [sched_spec(rng, dates), {"a": "WeighSpecified", "weights": {n: round(w / tot, 4) for n, w in zip(names, ws)}}, {"a": "Rebalance"}]
        if rng.random() < 0.4:
            # a parent with both kinds of children: sub-strategies and securities of its own, picked by a full stock-algo stack
            # (its universe then carries price-index columns written as the run proceeds next to supplied price columns)
            own = rng.sample(tickers, rng.randint(1, len(tickers)))
            root["children"] += [{"k": "X", "name": t, "cls": "Security", "mult": 1.0, "decl": rng.choice(["str", "obj"])} for t in own]
            root["algos"] = stack(own)
            if rng.random() < 0.5:
                # selection by the number of observations in a trailing window (what counts as 'has data' by a date)
                root["algos"] = [sched_spec(rng, dates), {"a": "SelectHasData", "kw": {"lookback": {"days": gap * rng.randint(2, 6)}, "min_count": rng.randint(2, 5)}}, {"a": "WeighEqually"}, {"a": "Rebalance"}]
            _restrict_all(root, own)
            fired["parent_with_strategies_and_securities"] = 1
    else:
        root["algos"] = stack(tickers)
    # declared universes (strings / objects): the universe filter and lazy creation paths
    for _p, s in trees.strategies(root):
        if not any(c["k"] == "S" for c in s["children"]) and rng.random() < 0.6:
            decl = rng.choice(["str", "obj", "lazy"])
            names = rng.sample(tickers, rng.randint(max(1, len(tickers) - 1), len(tickers)))
            s["children"] = [{"k": "X", "name": t, "cls": "Security", "mult": 1.0, "decl": decl} for t in names]
            _restrict_all(s, names)
    cfg = {"integer": rng.random() < 0.5, "comm": commod.gen(rng, feedmod.min_unit(fspec["prices"])) if rng.random() < 0.5 else None, "capital": capital, "fi": False, "obs_price": False, "obs_eod": False, "profile": "all_algos"}
    return {"driver": "engine", "cfg": cfg, "tree": root, "feed": fspec, "extra": extra, "fired": fired}


def gen_replay_plan(rng, tier="quick"):
    """a blotter of executed trades (arbitrary timestamps and prices, rows in any order: by time, by security, shuffled) replayed
    by ReplayTransactions: what is executed by a date is the lines stamped up to that date, whatever comes later in the file"""
    import datetime as dt

    ndates = rng.randint(6, 20 if tier == "thorough" else 14)
    fspec, fired = gen_feed(rng, ndates, rng.randint(2, 4), style=rng.choice(["bday", "gaps"]), faults={}, spread_p=0.0)
    dates, tickers = fspec["dates"], fspec["tickers"]
    fspec["bidoffer"] = [[0.0 for _ in tickers] for _ in dates]  # (custom-price trades need the bid/offer bookkeeping switched on)
    rows = []
    for j, t in enumerate(tickers):
        for i in sorted(rng.sample(range(ndates), rng.randint(1, min(5, ndates)))):
            d = dt.datetime.fromisoformat(dates[i])
            if i > 0 and rng.random() < 0.3:
                # stamped between two dates of the data: executed by the later one
                d = d - (d - dt.datetime.fromisoformat(dates[i - 1])) / 2
            px = fspec["prices"][i][j]
            rows.append([d.isoformat(), t, float(rng.choice([1, 1, -1]) * rng.choice([10, 50, 200, 1000])), round(px * rng.uniform(0.98, 1.02), 4)])
    order = rng.choice(["by_security", "by_time", "shuffled", "reversed"])
    if order == "by_time":
        rows.sort(key=lambda r: r[0])
    elif order == "reversed":
        rows.sort(key=lambda r: r[0], reverse=True)
    elif order == "shuffled":
        rng.shuffle(rows)
    kids = [{"k": "X", "name": t, "cls": "Security", "mult": 1.0, "decl": "obj"} for t in tickers]
    root = {"k": "S", "name": "top", "cls": "Strategy", "fi": False, "how": "list", "children": kids, "algos": [{"a": "ReplayTransactions", "args": ["tx"]}]}
    fired["blotter_" + order] = 1
    cfg = {"integer": False, "comm": None, "capital": 1e6, "fi": False, "obs_price": False, "obs_eod": False, "profile": "replay"}
    return {"driver": "engine", "cfg": cfg, "tree": root, "feed": fspec, "extra": {"tx": {"kind": "blotter", "rows": rows}}, "fired": fired}


def gen_frame_gate_plan(rng, tier="quick"):
    """a drifting portfolio whose only rebalancing trigger reads a supplied frame (PTE_Rebalance on dated target weights that
    start after a warm-up and change from date to date): what the trigger sees on a date decides everything recorded from there on"""
    ndates = rng.randint(10, 30 if tier == "thorough" else 22)
    fspec, fired = gen_feed(rng, ndates, rng.randint(2, 4), style="bday", faults={}, spread_p=0.3)
    ensure_moving(fspec, rng)
    dates, tickers = fspec["dates"], fspec["tickers"]
    lead = rng.randint(2, max(2, (2 * ndates) // 3)) if rng.random() < 0.7 else 0
    rows_w = []
    for i in range(ndates):
        if i < lead:
            rows_w.append([None for _ in tickers])
        else:
            raw = [rng.random() ** 2 + 0.02 for _ in tickers]
            rows_w.append([round(x / sum(raw), 4) for x in raw])
    extra = {"ptw0": _frame(tickers, rows_w)}
    raw = [rng.random() + 0.1 for _ in tickers]
    held = {t: round(x / sum(raw), 4) for t, x in zip(tickers, raw)}
    gate = {"a": "PTE_Rebalance", "args": [round(10 ** rng.uniform(-2.0, -0.3), 4), "@ptw0"], "kw": {"lookback": {"days": rng.choice([10, 20, 40])}, "lag": {"days": rng.choice([0, 0, 1])}}}
    st = [{"a": "Or", "algos": [{"a": "RunOnDate", "dates": [dates[0]]}, gate]}, {"a": "SelectAll"}, rng.choice([{"a": "WeighEqually"}, {"a": "WeighSpecified", "weights": held}]), {"a": "Rebalance"}]
    root = {"k": "S", "name": "top", "cls": "Strategy", "fi": False, "how": "list", "children": [], "algos": st}
    fired["frame_gate_plan"] = 1
    if lead:
        fired["targets_start_after_warmup"] = 1
    cfg = {"integer": rng.random() < 0.5, "comm": None, "capital": 1e6, "fi": False, "obs_price": False, "obs_eod": False, "profile": "frame_gate"}
    return {"driver": "engine", "cfg": cfg, "tree": root, "feed": fspec, "extra": extra, "fired": fired}


def _restrict_all(s, names):
    """keep explicitly named tickers / frame columns inside the strategy's declared universe"""
    _restrict(s, names)
    for a in s.get("algos", []):
        if a.get("a") == "SelectRegex":
            pass


# =========================================================================================
# leveraged / short portfolios driven through zero equity (C16)
# =========================================================================================
def gen_bankrupt_plan(rng, tier="quick"):
    ndates = rng.randint(5, 16)
    ntick = rng.randint(2, 3)
    fspec, fired = gen_feed(rng, ndates, ntick, style=rng.choice(["bday", "gaps"]), faults={}, spread_p=0.3, lo=20.0, hi=200.0)
    dates, tickers = fspec["dates"], fspec["tickers"]
    main = tickers[0]
    short = rng.random() < 0.4
    lev = rng.choice([2.0, 3.0, 5.0]) if not short else rng.choice([1.0, 2.0, 3.0])
    # price path of the main ticker: calm, then a shock on date d sized relative to the break-even move
    d = rng.randint(1, ndates - 1)
    outcome = rng.choice(["cross", "cross", "cross", "near", "survive"])
    brk = (1.0 / lev) if not short else (1.0 / lev)  # long: -1/lev wipes out equity; short: +1/lev
    mag = {"cross": brk * rng.uniform(1.15, 1.8), "near": brk * rng.uniform(0.97, 1.03), "survive": brk * rng.uniform(0.3, 0.8)}[outcome]
    j = 0
    p0 = fspec["prices"][0][j]
    for i in range(ndates):
        p = p0 * (1 + 0.001 * ((i * 7) % 5 - 2))
        if i >= d:
            p = p0 * ((1 - mag) if not short else (1 + mag))
            if rng.random() < 0.5 and i > d:
                p = p0 * (1 + 0.002 * (i % 3))  # prices recover afterwards
        fspec["prices"][i][j] = round(max(p, 0.01), 4)
    fired["price_shock_" + outcome] = 1
    w = {main: (-lev if short else lev)}
    if len(tickers) > 1 and rng.random() < 0.5:
        w[tickers[1]] = round(rng.uniform(0.05, 0.3), 3)
    nested = rng.random() < 0.45
    sched = rng.choice([{"a": "RunOnce"}, {"a": "RunOnDate", "dates": [dates[0]]}, {"a": "RunMonthly", "kw": {"run_on_first_date": True}}])
    spies = [{"a": "Spy", "id": 0}]
    if nested:
        sub = {"k": "S", "name": "lev", "cls": "Strategy", "fi": False, "how": "list", "children": [], "algos": [{"a": "Spy", "id": 2}, {"a": "RunOnDate", "dates": [dates[0]]}, {"a": "WeighSpecified", "weights": w}, {"a": "Rebalance"}]}
        if rng.random() < 0.5:
            sub["children"] = [{"k": "X", "name": t, "cls": "Security", "mult": rng.choice([1.0, 10.0]), "decl": "obj"} for t in w]
        root = {"k": "S", "name": "top", "cls": "Strategy", "fi": False, "how": "list", "children": [sub], "algos": spies + [sched, {"a": "WeighSpecified", "weights": {"lev": rng.choice([1.0, 0.9, 0.5])}}, {"a": "Rebalance"}, {"a": "Spy", "id": 1, "run_always": True}]}
    else:
        root = {"k": "S", "name": "top", "cls": "Strategy", "fi": False, "how": "list", "children": [], "algos": spies + [sched, {"a": "WeighSpecified", "weights": w}, {"a": "Rebalance"}, {"a": "Spy", "id": 1, "run_always": True}]}
        if rng.random() < 0.4:
            root["children"] = [{"k": "X", "name": t, "cls": "Security", "mult": 1.0, "decl": rng.choice(["obj", "str"])} for t in w]
    if rng.random() < 0.3:
        root["algos"].insert(1, chaos_spec(rng, ndates, flows=False))
    cfg = {"integer": rng.random() < 0.5, "comm": commod.gen(rng, feedmod.min_unit(fspec["prices"])) if rng.random() < 0.5 else None, "capital": rng.choice([1e5, 1e6]), "fi": False, "obs_price": False, "obs_eod": rng.random() < 0.5, "profile": "bankrupt", "outcome": outcome}
    if rng.random() < 0.12:
        # equity driven through zero by a withdrawal in the middle of the date's algo run (not by the market before it): the
        # liquidation then happens inside the run, with the rest of the stack (and the sub-strategies' stacks) still to come
        dd = rng.randint(1, ndates - 1)
        acts = [None] * ndates
        acts[dd] = [rng.choice(["flow", "flow", "flow_deferred"]), -round(cfg["capital"] * rng.uniform(1.3, 3.0), 2)]
        root["algos"] = [{"a": "Spy", "id": 0}, {"a": "Chaos", "acts": acts}, {"a": "RunDaily"}] + [a for a in root["algos"] if a.get("a") not in ("Spy", "Chaos", "RunOnce", "RunOnDate", "RunMonthly") or a.get("run_always")]
        fired["withdrawal_beyond_equity_mid_run"] = 1
    if rng.random() < 0.15:
        # started without capital and funded later by a flow: worth exactly zero until then (not negative: never flagged)
        cap = cfg["capital"]
        cfg["capital"] = 0.0
        k = rng.randint(0, max(0, d - 1))
        root["algos"] = [{"a": "RunOnDate", "dates": [dates[k]]}, {"a": "CapitalFlow", "args": [cap]}] + [a for a in root["algos"] if a.get("a") not in ("RunOnce", "RunOnDate", "RunMonthly")]
        fired["zero_capital_start"] = 1
    return {"driver": "engine", "cfg": cfg, "tree": root, "feed": fspec, "fired": fired}


def check_terminal(sim):
    """after the bankruptcy date: no algo of the live tree runs, positions stay zero, value and cash stay constant"""
    root = sim.root
    tb = sim.bankrupt_at
    if tb is None or not root.bankrupt:
        return
    # trades made after the liquidation (same date included): nothing may trade on a liquidated tree
    if sim.bankrupt_seq is not None:
        after = [e for e in sim.log if e[0] > sim.bankrupt_seq and e[1] == "trade"]
        if after:
            e = after[0]
            sim.violation("bankrupt_traded_after", "bankrupt and liquidated on date #%d (event %d), yet %d trade(s) followed, first: %s %r" % (tb, sim.bankrupt_seq, len(after), "/".join(e[2]), e[3]), {"liquidated_mid_run": bool(sim.bankrupt_mid_run)})
            return
    late = [r for r in sim.spy_log if r[3] and r[2] > tb]
    if late:
        sim.violation("bankrupt_algos_ran", "bankrupt on date #%d but the backtest ran algo %r of %s on date #%d" % (tb, late[0][0], late[0][1], late[0][2]), {})
    i0 = tb + 1  # row of the bankruptcy date in the node frames (row 0 = synthetic)
    for n in root.members:
        if hasattr(n, "capital"):
            continue
        pos = sim.series(n, "positions")
        if (abs(pos[i0:]) >= TOL).any():
            sim.violation("bankrupt_positions_after", "%s holds a position after the bankruptcy date" % n.full_name, {})
            return
    va = sim.series(root, "values")
    ca = sim.series(root, "cash")
    if sim.completed and len(va) != len(sim.dates):
        # value and cash stay constant on *every* later date: those rows have to exist (the clock runs on to the end of the data)
        sim.violation("bankrupt_not_constant", "bankrupt on date #%d: the recorded history ends on %s, %d of the %d dates of the data have no row" % (tb, root.now, len(sim.dates) - len(va), len(sim.dates) - 1), {"truncated": True})
        return
    tol = REL * (abs(va[i0]) + sim.cfg["capital"] + 1)
    for i in range(i0 + 1, len(va)):
        if abs(va[i] - va[i0]) > tol or abs(ca[i] - ca[i0]) > tol:
            sim.violation("bankrupt_not_constant", "root value / cash move after the bankruptcy date: value[%d]=%r vs %r, cash %r vs %r" % (i, va[i], va[i0], ca[i], ca[i0]), {})
            return


# =========================================================================================
# plan-controlled rebalancing (C06)
# =========================================================================================
def gen_rebalance_plan(rng, tier="quick"):
    big = tier == "thorough"
    ndates = rng.randint(4, 24 if big else 14)
    ntick = rng.randint(2, 5)
    const = rng.random() < 0.15
    fspec, fired = gen_feed(rng, ndates, ntick, style=rng.choice(["bday", "gaps"]), faults={}, spread_p=0.3, lo=5.0, hi=300.0)
    dates, tickers = fspec["dates"], fspec["tickers"]
    if const:
        for i in range(1, ndates):
            fspec["prices"][i] = list(fspec["prices"][0])
    capital = rng.choice([1e5, 1e6, 33333.0])
    root = {"k": "S", "name": "top", "cls": "Strategy", "fi": False, "how": "list", "children": []}
    names = list(tickers)
    subs = []
    if rng.random() < 0.4:
        for i in range(rng.randint(1, 2)):
            kind = rng.choice(["cash", "invested", "invested"])
            st = [] if kind == "cash" else [{"a": "RunOnDate", "dates": [dates[rng.randrange(max(1, ndates // 2))]]}, {"a": "SelectThese", "args": [sorted(rng.sample(tickers, rng.randint(1, len(tickers))))]}, {"a": "WeighEqually"}, {"a": "Rebalance"}]
            if kind == "invested" and rng.random() < 0.35:
                # a long/short book inside the sub-strategy: capital moved in or out by the parent is spread over negative weights too
                lg, sh = rng.sample(tickers, 2)
                x = round(rng.uniform(0.2, 0.6), 2)
                st = [st[0], {"a": "WeighSpecified", "weights": {lg: round(1.0 + x, 2) if rng.random() < 0.5 else 1.0, sh: -x}}, {"a": "Rebalance"}]
                fired["short_inside_substrategy"] = 1
            root["children"].append({"k": "S", "name": "sub%d" % i, "cls": "Strategy", "fi": False, "how": "list", "children": [], "algos": st})
            subs.append("sub%d" % i)
        decl = rng.choice(["str", "obj"])
        for t in tickers:
            root["children"].append({"k": "X", "name": t, "cls": "Security", "mult": rng.choice([1.0, 1.0, 10.0]) if decl == "obj" else 1.0, "decl": decl})
        names = subs + list(tickers)
    else:
        decl = rng.choice(["open", "open", "str", "obj", "lazy"])
        if decl != "open":
            for t in tickers:
                root["children"].append({"k": "X", "name": t, "cls": "Security", "mult": rng.choice([1.0, 1.0, 10.0, 0.1]) if decl != "str" else 1.0, "decl": decl})
    allow_short = rng.random() < 0.4

    def wvec():
        k = rng.randint(1, len(names))
        sel = rng.sample(names, k)
        raw = [rng.random() for _ in sel]
        tot = sum(raw) / rng.choice([1.0, 1.0, 0.9, 0.5])
        ws = {n: round(x / tot, 4) for n, x in zip(sel, raw)}
        if allow_short:
            for n in sel:
                if n not in subs and rng.random() < 0.4:
                    ws[n] = -ws[n]
        return ws

    rows = sorted(rng.sample(dates, rng.randint(1, len(dates))))
    data = []
    for _ in rows:
        ws = wvec()
        data.append([ws.get(n) for n in names])
    extra = {"tw": _frame(names, data, rows=rows)}
    st = []
    r = rng.random()
    if r < 0.6:
        st.append({"a": "WeighTarget", "args": ["tw"]})
    else:
        st += [sched_spec(rng, dates), {"a": "WeighSpecified", "weights": wvec()}]
    if rng.random() < 0.35:
        # (the whole range of cash fractions: 0 = none set aside, 1 = everything - every target then is zero)
        cs = [rng.choice([None, 0.1, 0.25, 0.4, 1.0, 0.0]) for _ in range(3)]
        st.append({"a": "SetTemp", "set": {"cash": cs if rng.random() < 0.5 else rng.choice([0.1, 0.3, 0.5, 1.0])}})
    if rng.random() < 0.25:
        # (no update=False flows here: Rebalance is judged from a delivered state - it reads target.value itself)
        st.insert(0, chaos_spec(rng, ndates, flows=True, capital=capital, deferred=False))
    if rng.random() < 0.25:
        st.append({"a": "Wrap", "inner": {"a": "run_always", "algo": {"a": "RebalanceOverTime", "kw": {"n": rng.randint(2, 4)}}}})
        fired["rebalance_over_time"] = 1
    else:
        st.append({"a": "Wrap", "inner": {"a": "Rebalance"}})
    root["algos"] = st
    costless = rng.random() < 0.45
    cfg = {"integer": rng.random() < 0.45, "comm": None if costless else commod.gen(rng, feedmod.min_unit(fspec["prices"]) * 0.1), "capital": capital, "fi": False, "obs_price": False, "obs_eod": rng.random() < 0.3, "profile": "rebalance"}
    if costless:
        fspec["bidoffer"] = None
    return {"driver": "engine", "cfg": cfg, "tree": root, "feed": fspec, "extra": extra, "fired": fired}


# =========================================================================================
# fixed-income engine runs (C17, C20)
# =========================================================================================
FI_CLASSES = ["CouponPayingSecurity", "CouponPayingSecurity", "FixedIncomeSecurity", "Security", "HedgeSecurity", "CouponPayingHedgeSecurity"]


def gen_fi_plan(rng, tier="quick"):
    ndates = rng.randint(4, 16)
    ntick = rng.randint(3, 5)
    fspec, fired = gen_feed(rng, ndates, ntick, style=rng.choice(["bday", "gaps", "intraday"]), faults={}, spread_p=0.4, lo=80.0, hi=120.0)
    dates, tickers = fspec["dates"], fspec["tickers"]
    classes = {t: rng.choice(FI_CLASSES) for t in tickers}
    classes[tickers[0]] = "CouponPayingSecurity"
    # coupons: irregular, zero, NaN while flat is tolerated
    fspec["coupons"] = [[rng.choice([0.0, 0.0, 0.0, 0.01, 0.025, 0.001]) for _ in tickers] for _ in range(ndates)]
    if rng.random() < 0.6:
        fspec["cost_long"] = [[rng.choice([0.0, 0.0005, 0.002]) for _ in tickers] for _ in range(ndates)]
    if rng.random() < 0.6:
        fspec["cost_short"] = [[rng.choice([0.0, 0.001, 0.003]) for _ in tickers] for _ in range(ndates)]
    root = {"k": "S", "name": "fi", "cls": "FixedIncomeStrategy", "fi": True, "how": rng.choice(["list", "dict"]), "children": []}
    for t in tickers:
        root["children"].append({"k": "X", "name": t, "cls": classes[t], "mult": rng.choice([1.0, 1.0, 1.0, 10.0, 0.5]), "decl": rng.choice(["obj", "obj", "lazy"])})
    targets = [t for t in tickers if classes[t] in ("CouponPayingSecurity", "FixedIncomeSecurity", "Security")]
    rows = sorted(rng.sample(dates, rng.randint(1, len(dates))))
    data = []
    for _ in rows:
        sel = rng.sample(targets, rng.randint(1, len(targets)))
        raw = [rng.random() for _ in sel]
        tot = sum(raw)
        ws = {n: round(x / tot, 4) * rng.choice([1, 1, 1, -1]) for n, x in zip(sel, raw)}
        data.append([ws.get(n) for n in targets])
    extra = {"tw": _frame(targets, data, rows=rows), "notl": {"kind": "series", "data": [rng.choice([1000.0, 5000.0, 2500.0, 1e5]) for _ in dates]}}
    if rng.random() < 0.3 and ndates >= 4:
        # the book is wound down to a notional of exactly zero for a stretch (every target then is zero), and re-opened
        a0 = rng.randint(1, ndates - 2)
        for i in range(a0, min(ndates, a0 + rng.randint(1, 2))):
            extra["notl"]["data"][i] = 0.0
        fired["notional_set_to_zero"] = 1
    st = [{"a": "WeighTarget", "args": ["tw"]}]
    if rng.random() < 0.8:
        st.insert(0, {"a": "SetNotional", "args": ["notl"]})
    if rng.random() < 0.3:
        st.insert(0, chaos_spec(rng, ndates, flows=False))
    st.append({"a": "Wrap", "inner": {"a": "Rebalance"}})
    if rng.random() < 0.3:
        st.append(chaos_spec(rng, ndates, flows=False))
    root["algos"] = st
    cfg = {"integer": rng.random() < 0.4, "comm": commod.gen(rng, 50.0) if rng.random() < 0.5 else None, "capital": rng.choice([0.0, 1e6]), "fi": True, "obs_price": False, "obs_eod": rng.random() < 0.6, "profile": "fi_engine"}
    return {"driver": "engine", "cfg": cfg, "tree": root, "feed": fspec, "extra": extra, "fired": fired}
