"""Eager ledger reference model.  Nothing lazy inside.

It is driven by *semantic events* only:
  * external operations issued by the driver / by algos (flows, non-flow adjustments)
  * trade requests as executed (security, q, custom price) seen by the tap
  * capital transfers parent -> sub-strategy seen by the tap
  * ticks (date changes)
and computes, by the specification, cash, positions, parked carry; values,
notionals, weights and the root index are recomputed from the ledger at every
observation.  Where the specification leaves an outcome open (how many units
``allocate(amount)`` buys) the model adopts the implementation's choice (C05
validates that choice separately against the budget rule).
"""
import math

TOL = 1e-16
PAR = 100.0

FI_POS = ("FixedIncomeSecurity", "CouponPayingSecurity")
HEDGE = ("HedgeSecurity", "CouponPayingHedgeSecurity")
COUPON = ("CouponPayingSecurity", "CouponPayingHedgeSecurity")


def isz(x):
    return abs(x) < TOL


class MSec(object):
    issec = True

    def __init__(self, name, parent, cls="Security", mult=1.0):
        self.name = name
        self.parent = parent
        self.cls = cls
        self.mult = float(mult)
        self.pos = 0.0
        self.carry = 0.0  # parked on the security, swept at the next date
        self.outlay_today = 0.0
        self.bo_today = 0.0
        self.trades_today = 0
        self.rows = {}  # date index -> dict
        self.created_at = None

    @property
    def path(self):
        return self.parent.path + (self.name,)


class MStrat(object):
    issec = False

    def __init__(self, name, parent, fi=False):
        self.name = name
        self.parent = parent
        self.fi = fi
        self.children = {}
        self.cash = 0.0
        self.flows_today = 0.0
        self.fees_today = 0.0
        self.ext_nonflow_today = 0.0
        self.ext_flow_today = 0.0
        self.carry_today = 0.0
        self.given_today = 0.0  # capital passed down to sub-strategies today
        self.activity_today = 0  # flows / transfers / trades booked on this node today (even if they net to zero)
        self.first_activity_t = None  # date index of the first cash movement ever booked on this node
        self.last_value = 0.0
        self.last_notl = 0.0
        self.rows = {}

    @property
    def path(self):
        return (self.name,) if self.parent is None else self.parent.path + (self.name,)


class Model(object):
    def __init__(self, tree, feed, commission):
        """tree: nested spec {"k":"S","name":..,"fi":bool,"children":[...]} / {"k":"X","name","cls","mult"}"""
        self.feed = feed
        self.comm = commission
        self.t = -1  # row index into feed.dates; -1 = synthetic pre-start row
        self.started = False
        self.root = self._build(tree, None)
        self.index = PAR
        self.last_index = PAR
        self.index_rows = {}
        self.min_equity = 0.0  # lowest root value seen since last observation (transients)
        self.run_min_equity = None  # lowest root value after any event of the whole run
        self.ever_negative = False
        self.zero_base_hazard = None
        self.ntrades = 0
        self.ntransfers = 0
        self.peak_today = 0.0  # largest single transient notional booked today (float noise scales with it)
        self.peak_ever = 0.0

    # ------------------------------------------------------------------ structure
    def _build(self, spec, parent):
        if spec["k"] == "S":
            n = MStrat(spec["name"], parent, fi=bool(spec.get("fi")))
            for c in spec.get("children", []):
                ch = self._build(c, n)
                n.children[ch.name] = ch
            return n
        ms = MSec(spec["name"], parent, spec.get("cls", "Security"), spec.get("mult", 1.0))
        ms.par_notional = bool(spec.get("fi_flag", True))  # coupon-paying securities can be built with fixed_income=False
        return ms

    def node(self, path, create_cls=None, mult=1.0):
        n = self.root
        assert path[0] == n.name, (path, n.name)
        for i, p in enumerate(path[1:]):
            c = n.children.get(p)
            if c is None:
                if i == len(path) - 2 and create_cls is not None:
                    c = MSec(p, n, create_cls, mult)
                    c.created_at = self.t
                    n.children[p] = c
                else:
                    raise KeyError(path)
            n = c
        return n

    def nodes(self, n=None):
        n = n or self.root
        yield n
        if not n.issec:
            for c in n.children.values():
                for x in self.nodes(c):
                    yield x

    def strats(self):
        return [n for n in self.nodes() if not n.issec]

    def secs(self):
        return [n for n in self.nodes() if n.issec]

    # ------------------------------------------------------------------ valuation
    def price(self, s):
        return self.feed.price(self.t, s.name)

    def value(self, n):
        if n.issec:
            if isz(n.pos):
                p = self.price(n)
                return 0.0 if math.isnan(p) else n.pos * p * n.mult
            return n.pos * self.price(n) * n.mult
        v = n.cash
        for c in n.children.values():
            v += self.value(c)
        return v

    def notional(self, n):
        if n.issec:
            if n.cls in HEDGE:
                return 0.0
            if n.cls in FI_POS:
                return n.pos  # (also for a coupon-paying security built with fixed_income=False: that flag only changes how it is rebalanced)
            return self.value(n)
        return sum(abs(self.notional(c)) for c in n.children.values())

    def weight(self, n):
        p = n.parent
        if p is None:
            return 1.0
        if p.fi:
            d = self.notional(p)
            return self.notional(n) / d if not isz(d) else 0.0
        d = self.value(p)
        return self.value(n) / d if not isz(d) else 0.0

    def gross(self):
        g = 1.0 + self.peak_today
        for n in self.nodes():
            if n.issec:
                p = self.price(n)
                if not math.isnan(p):
                    g += abs(n.pos * p * n.mult)
                g += abs(n.carry)
            else:
                g += abs(n.cash)
        return g

    def _track_equity(self):
        v = self.value(self.root)
        if v == v:
            if v < self.min_equity:
                self.min_equity = v
            if self.run_min_equity is None or v < self.run_min_equity:
                self.run_min_equity = v

    def reset_equity_watch(self):
        v = self.value(self.root)
        self.min_equity = v if v == v else 0.0

    # ------------------------------------------------------------------ events
    def tick(self, t):
        """Move the clock to feed row t (>= 0) or stay on the synthetic row (-1) at start."""
        if self.started:
            self.close_date()
            # sweep carry parked on the previous date, reset per-date accumulators
            for n in self.nodes():
                if n.issec:
                    n.outlay_today = 0.0
                    n.bo_today = 0.0
                    n.trades_today = 0
                else:
                    n.flows_today = 0.0
                    n.fees_today = 0.0
                    n.ext_nonflow_today = 0.0
                    n.ext_flow_today = 0.0
                    n.carry_today = 0.0
                    n.given_today = 0.0
                    n.activity_today = 0
            self.peak_today = 0.0
            for s in self.secs():
                if s.carry != 0.0:
                    s.parent.cash += s.carry
                    s.parent.carry_today += s.carry
                    s.carry = 0.0
        self.started = True
        self.t = t
        self._track_equity()

    def accrue(self):
        """carry accrued on the current date on the end-of-day position (parked)."""
        f = self.feed
        for s in self.secs():
            if s.cls in COUPON:
                c = f.get("coupons", self.t, s.name)
                if isz(s.pos):
                    coupon = 0.0
                else:
                    coupon = s.pos * c
                cost = 0.0
                if s.pos > 0 and f.has("cost_long") and s.name in f.col:
                    cost = s.pos * f.get("cost_long", self.t, s.name)
                elif s.pos < 0 and f.has("cost_short") and s.name in f.col:
                    cost = -s.pos * f.get("cost_short", self.t, s.name)
                s.coupon_today = coupon
                s.cost_today = cost
                s.carry = coupon - cost

    def close_date(self):
        """Record the end-of-date state of the current date."""
        self.accrue()
        t = self.t
        for n in self.nodes():
            if n.issec:
                n.rows[t] = {
                    "value": self.value(n),
                    "position": n.pos,
                    "notional": self.notional(n),
                    "outlay": n.outlay_today,
                    "bidoffer_paid": n.bo_today,
                    "coupon": getattr(n, "coupon_today", 0.0) if n.cls in COUPON else 0.0,
                    "holding_cost": getattr(n, "cost_today", 0.0) if n.cls in COUPON else 0.0,
                    "trades": n.trades_today,
                }
            else:
                v = self.value(n)
                nv = self.notional(n)
                n.rows[t] = {
                    "value": v,
                    "cash": n.cash,
                    "notional": nv,
                    "fees": n.fees_today,
                    "flows": n.flows_today,
                    "ext_nonflow": n.ext_nonflow_today,
                    "ext_flow": n.ext_flow_today,
                    "carry": n.carry_today,
                    "given": n.given_today,
                    "last_value": n.last_value,
                    "last_notl": n.last_notl,
                }
        # root index by the documented recurrence
        r = self.root
        row = r.rows[t]
        v = row["value"]
        if r.fi:
            pnl = v - (r.last_value + row["flows"])
            if not isz(r.last_notl):
                self.index = self.last_index + pnl / r.last_notl * PAR
            elif not isz(row["notional"]):
                self.index = self.last_index + pnl / row["notional"] * PAR
            else:
                self.index = self.last_index
        else:
            bottom = r.last_value + row["flows"]
            if not isz(bottom):
                self.index = self.last_index * (v / bottom)
            else:
                self.index = self.last_index
        self.index_rows[t] = self.index
        self.last_index = self.index
        for n in self.strats():
            n.last_value = n.rows[t]["value"]
            n.last_notl = n.rows[t]["notional"]

    def ext_adjust(self, path, amount, flow):
        n = self.node(path)
        if amount == 0:
            return  # (Backtest always books its initial capital, also when it is zero: not a movement)
        n.cash += amount
        n.activity_today += 1
        if n.first_activity_t is None:
            n.first_activity_t = self.t
        if flow:
            n.flows_today += amount
            n.ext_flow_today += amount
        else:
            n.ext_nonflow_today += amount
        self._track_equity()

    def transfer(self, path, amount):
        """capital pushed into strategy `path` from its parent (root: net zero)."""
        n = self.node(path)
        self.ntransfers += 1
        n.activity_today += 1
        if n.first_activity_t is None:
            n.first_activity_t = self.t
        if n.parent is None:
            # the root debits and credits itself (both as flows): net zero, but in floating point (x - a) + a may
            # differ from x by an ulp - mirror the two steps so that an exact zero base stays exact on both sides
            n.cash += -amount
            n.flows_today += -amount
            n.ext_flow_today += -amount
            n.cash += amount
            n.flows_today += amount
            n.ext_flow_today += amount
            return
        n.parent.activity_today += 1
        if n.parent.first_activity_t is None:
            n.parent.first_activity_t = self.t
        if abs(amount) > self.peak_today:
            self.peak_today = abs(amount)
            self.peak_ever = max(self.peak_ever, self.peak_today)
        n.parent.cash -= amount
        n.parent.given_today += amount
        n.cash += amount
        n.flows_today += amount

    def trade(self, path, q, custom=None, cls="Security", mult=1.0):
        """Book an executed trade by the specification.  Returns (outlay, fee, bidoffer)."""
        s = self.node(path, create_cls=cls, mult=mult)
        p = self.price(s)
        m = s.mult
        if custom is None:
            bo = abs(q) * 0.5 * self.feed.get("bidoffer", self.t, s.name) * m if self.feed.has("bidoffer") else 0.0
            if bo != bo:
                bo = NANF
            fee = self.comm(q, p * m)
        else:
            bo = q * (custom - p) * m
            fee = self.comm(q, custom * m)
        outlay = q * p * m + bo
        s.pos += q
        s.outlay_today += outlay
        s.bo_today += bo
        s.trades_today += 1
        par = s.parent
        par.cash -= outlay + fee
        par.fees_today += fee
        par.activity_today += 1
        if par.first_activity_t is None:
            par.first_activity_t = self.t
        if abs(outlay) > self.peak_today and outlay == outlay:
            self.peak_today = abs(outlay)
            self.peak_ever = max(self.peak_ever, self.peak_today)
        self.ntrades += 1
        self._track_equity()
        return outlay, fee, bo

    # ------------------------------------------------------------------ predictions
    def open_nan(self):
        """securities whose position is open while the current price is NaN -> update must raise."""
        out = []
        for s in self.secs():
            if not isz(s.pos) and math.isnan(self.price(s)):
                out.append(s.path)
        return out

    def open_nan_coupon(self):
        out = []
        for s in self.secs():
            if s.cls in COUPON and not isz(s.pos):
                c = self.feed.get("coupons", self.t, s.name)
                if c != c:
                    out.append(s.path)
        return out


NANF = float("nan")
