"""Semantic taps: wrappers installed on the imported snapshot's classes.

They work for the interpreted and the compiled build alike (core.py compiles to
ordinary Python classes).  A tap is inert unless a ``Sim`` is current and the
node belongs to that sim's *live* tree (paper copies have their own root and are
ignored, or tagged, as each hook decides).
"""
import math

CUR = None  # the current Sim (one per process at a time)
_INSTALLED = False
ORIG = {}


def set_current(sim):
    global CUR
    CUR = sim


def install(bt):
    global _INSTALLED
    if _INSTALLED:
        return
    _INSTALLED = True
    core = bt.core
    SB, ST = core.SecurityBase, core.StrategyBase

    o_transact = SB.transact
    o_sallocate = SB.allocate
    o_allocate = ST.allocate
    o_adjust = ST.adjust
    o_update = ST.update
    o_supdate = SB.update
    ORIG.update(transact=o_transact, sallocate=o_sallocate, allocate=o_allocate, adjust=o_adjust, update=o_update, supdate=o_supdate)

    def transact(self, q, update=True, update_self=True, price=None):
        sim = CUR
        if sim is None or self.root is not sim.root:
            return o_transact(self, q, update, update_self, price)
        sim.depth_transact += 1
        sim.depth_internal += 1
        try:
            r = o_transact(self, q, update, update_self, price)
        finally:
            sim.depth_transact -= 1
            sim.depth_internal -= 1
        sim.on_transact(self, q, price)
        return r

    def sallocate(self, amount, update=True):
        sim = CUR
        if sim is not None:
            sim.last_sec_alloc = (self.name, amount)  # (live tree or paper copy: a refusal propagates from either)
        if sim is None or self.root is not sim.root or sim.on_sec_allocate is None:
            return o_sallocate(self, amount, update)
        return sim.on_sec_allocate(self, amount, update, o_sallocate)

    def allocate(self, amount, child=None, update=True):
        sim = CUR
        if sim is None or self.root is not sim.root or child is not None:
            return o_allocate(self, amount, child, update)
        sim.depth_internal += 1
        try:
            r = o_allocate(self, amount, child, update)
        finally:
            sim.depth_internal -= 1
        sim.on_transfer(self, amount)
        return r

    def adjust(self, amount, update=True, flow=True, fee=0.0):
        sim = CUR
        if sim is not None and self.root is sim.root and sim.depth_internal == 0:
            r = o_adjust(self, amount, update, flow, fee)
            sim.on_ext_adjust(self, amount, flow, fee)
            return r
        return o_adjust(self, amount, update, flow, fee)

    def update(self, date, data=None, inow=None):
        sim = CUR
        if sim is None or self is not sim.root:
            return o_update(self, date, data, inow)
        sim.on_root_update_enter(date)
        sim.depth_update += 1
        try:
            r = o_update(self, date, data, inow)
        finally:
            sim.depth_update -= 1
        sim.on_root_update_exit(date)
        return r

    SB.transact = transact
    SB.allocate = sallocate
    ST.allocate = allocate
    ST.adjust = adjust
    ST.update = update


def entry_view(sim, target):
    """the node an oracle wrapper should read its entry state from: the node itself when nothing is pending, otherwise the same
    node in a deep copy of the tree - an observer's read must not deliver pending changes on behalf of the algo under test"""
    if not target.root.stale:
        return target
    import copy

    cur = CUR
    set_current(None)
    try:
        rc = copy.deepcopy(target.root)
    finally:
        set_current(cur)
    if sim is not None and hasattr(sim, "fire"):
        sim.fire("wrapped_algo_entered_stale")
    return [n for n in rc.members if n.full_name == target.full_name][0]


def path_of(node):
    out = [node.name]
    n = node
    while n.parent is not n and n.parent is not None:
        n = n.parent
        out.append(n.name)
    return tuple(reversed(out))


class Sim(object):
    """Per-run context: real tree + reference model + event log."""

    on_sec_allocate = None  # optional: C05 monitor hook
    last_sec_alloc = None  # (security name, amount) of the most recent SecurityBase.allocate call

    def __init__(self, bt, model, root=None):
        self.bt = bt
        self.model = model
        self.root = root
        self.depth_transact = 0
        self.depth_internal = 0
        self.depth_update = 0
        self.comm_calls = 0
        self.comm_booked = 0
        self.seq = 0
        self.log = []  # (seq, kind, ...)
        self.ticks = 0
        self.root_updates = 0
        self.viol = []
        self.trade_log = []  # (t, path, q, custom, outlay, fee, bo)
        self.ext_log = []
        self.tick_hook = None

    # ---- events from taps
    def ev(self, *a):
        self.seq += 1
        self.log.append((self.seq,) + a)

    def on_transact(self, sec, q, price):
        if abs(q) < 1e-16 or (isinstance(q, float) and math.isnan(q)):
            return
        m = self.model
        path = path_of(sec)
        outlay, fee, bo = m.trade(path, q, price, cls=type(sec).__name__, mult=sec.multiplier)
        self.trade_log.append((m.t, path, q, price, outlay, fee, bo))
        self.ev("trade", path, q, price)

    def on_transfer(self, strat, amount):
        self.model.transfer(path_of(strat), amount)
        self.ev("transfer", path_of(strat), amount)

    def on_ext_adjust(self, strat, amount, flow, fee):
        p = path_of(strat)
        self.model.ext_adjust(p, amount, flow)
        self.ext_log.append((self.model.t, p, amount, flow))
        self.ev("adjust", p, amount, flow)

    def on_root_update_enter(self, date):
        if self.depth_update:
            return
        if self.root.now == 0 or date != self.root.now:
            self.ticks += 1
            t = self.date_index(date)
            if self.tick_hook is not None:
                self.tick_hook(t)
            self.model.tick(t)
            self.ev("tick", t)
        self.root_updates += 1

    def on_root_update_exit(self, date):
        pass

    def date_index(self, date):
        raise NotImplementedError

    def violation(self, check, detail, flags=None):
        self.viol.append({"check": check, "detail": detail, "flags": flags or {}, "seq": self.seq})
