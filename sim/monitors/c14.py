"""C14: selection algos behind the oracle wrapper; 3-10 line references evaluated on the same universe window."""
import math
import re

import numpy as np
import pandas as pd


def _tradable(row, names, include_no_data, include_negative):
    out = []
    for n in names:
        v = row.get(n, np.nan) if hasattr(row, "get") else row[n]
        if not include_no_data and v != v:
            continue
        if not include_no_data and not include_negative and not (v > 0):
            continue
        out.append(n)
    return out


class C14Monitor(object):
    def __init__(self, sim, plan):
        self.sim = sim
        self.plan = plan
        self.judged = 0
        self.fault_at_now = 0

    def pre(self, wrap, target):
        u = target.universe
        return {"temp": {k: (list(v) if isinstance(v, (list, tuple, pd.Index)) else v) for k, v in target.temp.items()}, "universe": u, "now": target.now, "had_selected": "selected" in target.temp, "prior": list(target.temp["selected"]) if "selected" in target.temp else None, "stat": target.temp.get("stat")}

    def v(self, check, detail, **flags):
        self.sim.violation(check, detail, flags)

    def post(self, wrap, target, r, ctx):
        sim = self.sim
        spec = wrap.spec["inner"]
        a = spec["a"]
        kw = spec.get("kw", {})
        u = ctx["universe"]
        now = ctx["now"]
        cols = list(u.columns)
        row = u.loc[now]
        if u.index[-1] > now:
            self.v("c14_window", "%s saw a universe extending to %s beyond now=%s" % (a, u.index[-1], now))
            return
        self.judged += 1
        if row.isnull().any() or (row <= 0).any():
            self.fault_at_now += 1
        sel = target.temp.get("selected")
        sel_list = list(sel) if sel is not None else None
        ind = kw.get("include_no_data", False)
        ineg = kw.get("include_negative", False)
        prior = ctx["prior"]

        def expect_list(exp, what, ordered=True):
            got = sel_list
            ok = (got == exp) if ordered else (got is not None and sorted(got) == sorted(exp))
            if not ok:
                self.v("c14_selection", "%s%r on %s: selected %s, documented set is %s (%s; row now: %s)" % (a, kw or spec.get("args"), now, got, exp, what, {k: (None if x != x else x) for k, x in row.items()}), algo=a)
                return False
            return True

        def default_filter_ok():
            # by default never a ticker whose current price is missing, zero or negative, never one outside the universe
            if sel_list is None:
                return True
            for n in sel_list:
                if n not in cols and not ind:
                    self.v("c14_outside_universe", "%s selected %s which is not in the strategy's universe %s" % (a, n, cols), algo=a)
                    return False
                x = row[n]
                if not ind and not ineg and not (x > 0):
                    self.v("c14_untradable", "%s selected %s whose current price is %r" % (a, n, x), algo=a)
                    return False
            return True

        if a == "SelectAll":
            exp = cols if ind else _tradable(row, cols, ind, ineg)
            if expect_list(exp, "all tradable columns"):
                default_filter_ok()
        elif a == "SelectThese":
            names = spec["args"][0]
            exp = list(names) if ind else _tradable(row, names, ind, ineg)
            if expect_list(exp, "the given tickers, tradable"):
                default_filter_ok()
        elif a == "SelectHasData":
            base = prior if prior is not None else cols
            lb = pd.DateOffset(**spec["kw"]["lookback"])
            win = u.loc[now - lb:]
            exp = []
            for n in base:
                if n not in cols:
                    continue
                if win[n].count() < spec["kw"]["min_count"]:
                    continue
                x = row[n]
                if not ind and x != x:
                    continue
                if not ind and not ineg and not (x > 0):
                    continue
                exp.append(n)
            if expect_list(exp, "count over [now-lookback, now] >= min_count, tradable", ordered=False):
                default_filter_ok()
        elif a == "SelectWhere":
            sig = target.get_data(spec["args"][0])
            if now in sig.index:
                s = sig.loc[now]
                names = [n for n in s.index if s[n] == True]  # noqa: E712
                exp = names if ind else _tradable(row, [n for n in names if n in cols], ind, ineg)
                if expect_list(exp, "signal True at now, tradable", ordered=False):
                    default_filter_ok()
        elif a == "SelectRandomly":
            base = prior if prior is not None else cols
            pool = base if ind else _tradable(row, [n for n in base if n in cols], ind, ineg)
            n = kw.get("n")
            k = len(pool) if n is None else min(int(n), len(pool))
            if sel_list is None or len(sel_list) != k or len(set(sel_list)) != k or any(x not in pool for x in sel_list):
                self.v("c14_selection", "SelectRandomly(n=%r) on %s: selected %s, must be %d distinct members of %s" % (n, now, sel_list, k, pool), algo=a)
            else:
                default_filter_ok()
        elif a == "SelectRegex":
            rx = re.compile(spec["args"][0])
            expect_list([n for n in (prior or []) if rx.search(n)], "prior selection filtered by the regex")
        elif a == "SelectTypes":
            inc = tuple(getattr(sim.bt.core, x) for x in spec.get("include", ["Node"]))
            exc = tuple(getattr(sim.bt.core, x) for x in spec.get("exclude", [])) or (type(None),)
            exp = [n for n, c in target.children.items() if isinstance(c, inc) and not isinstance(c, exc)]
            if prior is not None:
                exp = [n for n in exp if n in prior]
            expect_list(exp, "children by type, within the prior selection")
        elif a == "StatTotalReturn" or a == "SelectMomentum":
            lb = pd.DateOffset(**kw["lookback"])
            lag = pd.DateOffset(**kw.get("lag", {"days": 0}))
            t0 = now - lag
            names = [n for n in (prior or []) if n in cols]
            if not names and prior:
                return
            if u[prior].index[0] > t0 if prior else True:
                if r and a == "StatTotalReturn":
                    self.v("c14_stat", "StatTotalReturn returned True although the window ends before the data starts", algo=a)
                return
            win = u.loc[t0 - lb: t0, prior]
            if len(win) == 0:
                return
            tr = win.iloc[-1] / win.iloc[0] - 1
            stat = target.temp.get("stat")
            def same(x, y):
                return (x == y) or (x != x and y != y) or (abs(x - y) <= 1e-12 * (1 + abs(y)))

            if stat is None or not all(same(stat[n], tr[n]) for n in prior):
                self.v("c14_stat", "%s on %s: stat %s, total return over [now-lag-lookback, now-lag] = %s" % (a, now, None if stat is None else dict(stat), dict(tr)), algo=a)
                return
            if a == "SelectMomentum":
                self.check_topn(spec["args"][0], kw.get("sort_descending", True), kw.get("all_or_none", False), False, tr.dropna(), sel_list, prior, a, now)
        elif a == "SetStat":
            fr = target.get_data(spec["args"][0])
            lag = pd.DateOffset(**kw.get("lag", {"days": 0}))
            t0 = now - lag
            if t0 not in fr.index:
                if r:
                    self.v("c14_stat", "SetStat returned True although now - lag is not in the frame", algo=a)
                return
            stat = target.temp.get("stat")
            exp = fr.loc[t0]
            if stat is None or not exp.equals(stat):
                self.v("c14_stat", "SetStat(lag=%s) on %s: stat is not the frame row of now - lag" % (kw.get("lag"), now), algo=a)
        elif a == "SelectN":
            stat = ctx["stat"]
            if stat is None:
                return
            st = stat.dropna()
            if kw.get("filter_selected") and prior is not None:
                st = st[[n for n in st.index if n in prior]]
            self.check_topn(spec["args"][0], kw.get("sort_descending", True), kw.get("all_or_none", False), True, st, sel_list, prior, a, now)
        elif a == "ResolveOnTheRun":
            otr = target.get_data(spec["args"][0])
            aliases = [n for n in (prior or []) if n in otr.columns]
            resolved = otr.loc[now, aliases].tolist()
            if not ind:
                resolved = _tradable(row, [n for n in resolved if n in cols], ind, ineg)
            exp = resolved + [n for n in (prior or []) if n not in otr.columns]
            expect_list(exp, "aliases resolved at now (tradable), other names kept")

    def check_topn(self, n, desc, all_or_none, from_stat, st, sel, prior, a, now):
        """ranked selection: the n best (or worst); ties are left open"""
        keep = n if n >= 1 else int(n * len(st))
        keep = int(keep)
        if all_or_none and len(st) < keep:
            exp_len = 0
        else:
            exp_len = min(keep, len(st))
        if sel is None or len(sel) != exp_len or len(set(sel)) != len(sel) or any(x not in st.index for x in sel):
            self.v("c14_ranking", "%s(n=%r) on %s: selected %s, expected %d of %s" % (a, n, now, sel, exp_len, dict(st)), algo=a)
            return
        if not sel:
            return
        chosen = st[sel]
        rest = st.drop(sel)
        if len(rest):
            if desc and chosen.min() < rest.max() or (not desc) and chosen.max() > rest.min():
                self.v("c14_ranking", "%s(n=%r, descending=%r) on %s: selected %s although %s ranks better (stat %s)" % (a, n, desc, now, sel, rest.idxmax() if desc else rest.idxmin(), dict(st)), algo=a)
