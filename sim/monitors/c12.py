"""C12: reference calendar written from the statement, with datetime / isocalendar only."""
import datetime as dt


def period(kind, d):
    if kind == "RunDaily":
        return d.date()
    if kind == "RunWeekly":
        return tuple(d.isocalendar())[:2]
    if kind == "RunMonthly":
        return (d.year, d.month)
    if kind == "RunQuarterly":
        return (d.year, (d.month - 1) // 3)
    if kind == "RunYearly":
        return d.year
    raise ValueError(kind)


def reference(spec, dates):
    """expected boolean per real date (list aligned with `dates`, python datetimes)"""
    a = spec["a"]
    n = len(dates)
    if a in ("RunDaily", "RunWeekly", "RunMonthly", "RunQuarterly", "RunYearly"):
        kw = dict(spec.get("kw", {}))
        # flags given by position follow the documented order: first date, end of period, last date
        for name, val in zip(("run_on_first_date", "run_on_end_of_period", "run_on_last_date"), spec.get("args", [])):
            kw[name] = val
        first = kw.get("run_on_first_date", True)
        end = kw.get("run_on_end_of_period", False)
        last = kw.get("run_on_last_date", False)
        out = []
        for i in range(n):
            if end:
                r = i + 1 < n and period(a, dates[i]) != period(a, dates[i + 1])
            else:
                r = i >= 1 and period(a, dates[i]) != period(a, dates[i - 1])
            if i == 0 and first:
                r = True
            if i == n - 1 and last:
                r = True
            out.append(bool(r))
        return out
    if a == "RunOnce":
        return [i == 0 for i in range(n)]
    if a == "RunOnDate":
        want = set(dt.datetime.fromisoformat(x) for x in spec["dates"])
        return [d in want for d in dates]
    if a == "RunAfterDate":
        x = dt.datetime.fromisoformat(spec["date"])
        return [d > x for d in dates]
    if a == "RunAfterDays":
        k = spec["args"][0]
        return [i >= k for i in range(n)]
    if a == "RunEveryNPeriods":
        k = spec["args"][0]
        off = spec.get("kw", {}).get("offset", 0)
        return [(i >= off and (i - off) % k == 0) for i in range(n)]
    raise ValueError(a)


def judge(sim, plan):
    dates = [dt.datetime.fromisoformat(x) for x in plan["feed"]["dates"]]
    n = len(dates)
    probes = plan["probes"]
    by = {}
    for pid, t, live, res, owner in sim.probe_log:
        by.setdefault((pid, live), []).append((t, res))
    njudged = 0
    for pid, spec in enumerate(probes):
        inner = spec["inner"]
        a = inner["a"]
        ref = reference(inner, dates)
        calls = dict(by.get((pid, True), []))
        family = a in ("RunDaily", "RunWeekly", "RunMonthly", "RunQuarterly", "RunYearly")
        for i in range(n):
            if i not in calls:
                sim.violation("c12_not_invoked", "probe %d (%s) was not invoked on date #%d" % (pid, a, i), {})
                break
            res = calls[i]
            njudged += 1
            got = res[0]
            if got != ref[i]:
                kw = dict(inner.get("kw", {}))
                for name_, val_ in zip(("run_on_first_date", "run_on_end_of_period", "run_on_last_date"), inner.get("args", []) if family else []):
                    kw[name_] = val_
                flags = {"algo": a, "pos": "only" if n == 1 else ("first" if i == 0 else ("last" if i == n - 1 else "middle")), "end_mode": bool(kw.get("run_on_end_of_period", False)), "expected": ref[i]}
                sim.violation("c12_calendar" if family else "c12_counting", "%s%r on %s (date #%d of %d): returned %r, the reference calendar says %r" % (a, inner.get("kw", inner.get("args", inner.get("dates", inner.get("date")))), dates[i], i, n, got, ref[i]), flags)
                break
            if len(res) > 1:
                # second invocation on the same date: calendar schedulers repeat themselves, once-per-date ones stay silent
                if family or a in ("RunOnDate", "RunAfterDate"):
                    if res[1] != res[0]:
                        sim.violation("c12_repeat", "%s answered %r then %r on the same date" % (a, res[0], res[1]), {"algo": a})
                        break
                elif a in ("RunOnce", "RunEveryNPeriods") and res[1]:
                    sim.violation("c12_repeat", "%s fired twice on the same date" % a, {"algo": a})
                    break
        # paper copies run the stack on the synthetic pre-start row: the calendar family must stay silent there
        if family:
            for t, res in by.get((pid, False), []):
                if t == -1 and any(res):
                    sim.violation("c12_synthetic_row", "%s fired on the synthetic pre-start row" % a, {"algo": a})
                    break
    return njudged


def off_index(sim, plan):
    """a strategy whose `now` is not a date of its data: the calendar family must answer False"""
    import copy

    import pandas as pd

    from .. import algospec, taps

    cur = taps.CUR
    taps.set_current(None)
    try:
        root = copy.deepcopy(sim.root)
        idx = root.data.index
        cands = [idx[-1] + pd.DateOffset(days=3), idx[0] - pd.DateOffset(days=40), idx[len(idx) // 2] + pd.DateOffset(minutes=7)]
        for spec in plan["probes"]:
            inner = spec["inner"]
            if inner["a"] not in ("RunDaily", "RunWeekly", "RunMonthly", "RunQuarterly", "RunYearly"):
                continue
            for d in cands:
                if d in idx:
                    continue
                root.now = d
                algo = algospec.build(sim.bt, inner, sim)
                try:
                    r = algo(root)
                except Exception as e:  # noqa
                    sim.violation("c12_off_index", "%s raised %s for a date outside the data" % (inner["a"], type(e).__name__), {"algo": inner["a"]})
                    return
                if r:
                    sim.violation("c12_off_index", "%s returned True for %s, which is not a date of the data" % (inner["a"], d), {"algo": inner["a"]})
                    return
    finally:
        taps.set_current(cur)
