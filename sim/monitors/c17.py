"""C17: notional-based Rebalance in fixed-income strategies (oracle wrapper) + renormalised result."""
from ..drive_tree import REL, TOL


class C17Monitor(object):
    def __init__(self, sim):
        self.sim = sim
        self.judged = 0

    def pre(self, wrap, target):
        if not target.fixed_income or type(wrap.inner).__name__ != "Rebalance":
            return None
        temp = target.temp
        if "weights" not in temp:
            return None
        from .. import taps

        src = taps.entry_view(self.sim, target)
        base = temp["notional_value"] if "notional_value" in temp else src.notional_value
        cur = {cn: (c.notional_value, getattr(c, "position", None)) for cn, c in src.children.items()}
        return dict(base=base, weights=dict(temp["weights"].items()), cur=cur, ntr=len(self.sim.trade_log))

    def post(self, wrap, target, r, ctx):
        if ctx is None:
            return
        sim = self.sim
        m = sim.model
        feed = sim.feed
        base = ctx["base"]
        if base != base:
            return
        trades = sim.trade_log[ctx["ntr"]:]
        costs = sum(abs(tr[5]) + abs(tr[6]) for tr in trades)
        self.judged += 1
        sim.fire("fi_rebalance_judged")
        scale = abs(base) + sum(abs(v[0]) for v in ctx["cur"].values()) + 1.0
        integer = bool(target.integer_positions)
        for cn, w in ctx["weights"].items():
            if w != w:
                continue
            c = target.children.get(cn)
            tgt = w * base
            if c is None:
                if abs(tgt) > 1e-9 * scale:
                    p = feed.price(m.t, cn)
                    if not (integer and abs(tgt) < abs(p)):
                        sim.violation("c17_target_missing", "target %s never created" % cn, {})
                continue
            cls = type(c).__name__
            if hasattr(c, "capital"):
                continue
            nv = c.notional_value
            if cls in ("CouponPayingSecurity", "FixedIncomeSecurity"):
                if abs(nv - tgt) > 1e-9 * scale:
                    fl = {"cls": cls, "by_cash": cls == "FixedIncomeSecurity"}
                    if cls == "FixedIncomeSecurity":
                        # the listed defect is specific: the missing *notional* (target - held par) is handed to allocate() as a
                        # cash amount, so the par bought is that amount divided by the unit price - any other outcome is another defect
                        p = feed.price(m.t, cn)
                        unit = p * c.multiplier
                        nv0 = ctx["cur"].get(cn, (0.0,))[0]
                        if unit == unit and unit != 0:
                            pred = nv0 + (tgt - nv0) / unit
                            hs = 0.5 * (feed.get("bidoffer", m.t, cn) if feed.has("bidoffer") else 0.0) * c.multiplier
                            # (whole units: the search may stop one unit short once more because spread / commission of the last unit do not fit)
                            slack = (2.0 if integer else 0.0) + abs(tgt - nv0) / abs(unit) * (abs(hs) + abs(m.comm(1.0, unit))) / abs(unit) + (costs + abs(m.comm(1.0, unit)) * 2) / abs(unit) + 1e-9 * scale
                            fl["notional_gap_spent_as_cash"] = bool(abs(nv - pred) <= slack)
                    sim.violation("c17_notional_target", "%s (%s) has notional %r after Rebalance, target w x notional = %r (w=%r, base=%r)" % (cn, cls, nv, tgt, w, base), fl)
            elif cls == "Security":
                p = feed.price(m.t, cn)
                unit = abs(p * c.multiplier)
                spread = feed.get("bidoffer", m.t, cn) if feed.has("bidoffer") else 0.0
                # one unit, the costs paid in this rebalance, and what one more unit would have cost on top
                tol = (unit if integer else 0.0) + costs + 0.5 * spread * c.multiplier + abs(m.comm(1.0, p * c.multiplier)) * 2 + 1e-8 + 1e-9 * scale
                if abs(nv - tgt) > tol:
                    sim.violation("c17_notional_target", "%s (Security) has market-value notional %r after Rebalance, target %r" % (cn, nv, tgt), {"cls": cls, "by_cash": False})
        for cn, c in target.children.items():
            if cn in ctx["weights"] or hasattr(c, "capital"):
                continue
            if ctx["cur"].get(cn, (0, 0))[0] != 0 and abs(c.position) >= TOL:
                sim.violation("c17_not_closed", "%s is not a target, had notional %r, still holds %r" % (cn, ctx["cur"][cn][0], c.position), {})


def check_renormalized(sim):
    """RenormalizedFixedIncomeResult: price = 100 * (1 + cumsum((dV - flows) / v)), first = 100"""
    import numpy as np
    import pandas as pd

    bt = sim.bt
    bkt = sim.bkt
    s = bkt.strategy
    va = s.values
    fl = s.flows
    for v in (1000.0, float(max(1.0, abs(va).max())), s.notional_values.replace(0.0, np.nan).bfill().ffill().fillna(1.0)):
        try:
            res = bt.backtest.RenormalizedFixedIncomeResult(v, bkt)
        except Exception as e:  # noqa
            sim.violation("c17_renormalized", "RenormalizedFixedIncomeResult raised %s: %s" % (type(e).__name__, str(e)[:100]), {})
            return
        got = res.prices[bkt.name].to_numpy(dtype=float)
        x = va.to_numpy(dtype=float)
        f = fl.to_numpy(dtype=float)
        vv = v.to_numpy(dtype=float) if hasattr(v, "to_numpy") else np.full(len(x), v)
        exp = np.empty(len(x))
        acc = 0.0
        exp[0] = 100.0
        for i in range(1, len(x)):
            acc += ((x[i] - x[i - 1]) - f[i]) / vv[i]
            exp[i] = 100.0 * (1.0 + acc)
        if len(got) != len(exp) or not np.allclose(got, exp, rtol=1e-9, atol=1e-7):
            i = int(np.argmax(np.abs(got - exp) > 1e-7)) if len(got) == len(exp) else -1
            sim.violation("c17_renormalized", "renormalised price row %d = %r, formula gives %r" % (i, got[i] if i >= 0 else None, exp[i] if i >= 0 else None), {})
            return
