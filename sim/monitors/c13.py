"""C13: reference interpreter for algo stacks (from the statement) + temp/perm lifecycle + RunIfOutOfBounds."""


def interp(specs, t, temp, calls):
    """run a list of algo specs as a stack; returns the stack's result"""
    failed = False
    for s in specs:
        ra = (bool(s.get("run_always")) and s.get("run_always") != "off") or s.get("a") == "run_always"  # ("off": the marker attribute exists, set to False)
        if failed and not ra:
            continue
        r = ev(s, t, temp, calls)
        if not failed and not r:
            failed = True
    return not failed


def ev(s, t, temp, calls):
    a = s["a"]
    if a == "Spy":
        ret = s.get("ret")
        r = True if ret is None else bool(ret[t % len(ret)])
        calls.append(s["id"])
        temp["mark_%d" % s["id"]] = t
        return r
    if a == "run_always":
        return ev(s["algo"], t, temp, calls)
    if a == "AlgoStack":
        return interp(s["algos"], t, temp, calls)
    if a == "Or":
        res = False
        for x in s["algos"]:
            res = bool(ev(x, t, temp, calls)) or res
        return res
    if a == "Not":
        return not ev(s["algo"], t, temp, calls)
    if a == "SetTemp":
        for k, v in s["set"].items():
            if isinstance(v, list) and k != "selected":
                v = v[t % len(v)]
            if v is not None:
                temp[k] = v
        return True
    if a == "Spawn":
        return True
    if a == "Require":
        if s["item"] not in temp or temp[s["item"]] is None:
            return bool(s.get("if_none", False))
        x = temp[s["item"]]
        return {"nonempty": len(x) > 0, "empty": len(x) == 0, "true": True, "false": False}[s["pred"]] if s["pred"] in ("true", "false") or hasattr(x, "__len__") else False
    raise ValueError(a)


def judge_flow(sim, plan):
    """compare the live spy log, date by date and strategy by strategy, with the reference interpreter"""
    n = len(plan["feed"]["dates"])
    strategies = dict(plan["stacks"])  # full_name -> stack spec list (live tree), in tree order
    order = list(strategies)
    spawn = plan.get("spawn")
    if spawn:
        # a sub-strategy created by the top strategy's own stack on date t: it is the top's last child from that run on
        strategies[spawn["name"]] = spawn["stack"]
    log = [r for r in sim.spy_log if r[3]]
    by_t = {}
    for r in log:
        by_t.setdefault(r[2], []).append(r)
    judged = 0
    perm_expected = {name: 0 for name in order}
    for t in range(n):
        recs = by_t.get(t, [])
        # own stack before children, each strategy exactly once per run (contiguous block per strategy, tree order)
        seen = []
        for r in recs:
            if not seen or seen[-1] != r[1]:
                seen.append(r[1])
        exp_blocks = []
        exp_calls = {}
        order_t = order + ([spawn["name"]] if spawn and t >= spawn["t"] else [])
        for name in order_t:
            calls = []
            temp = {}
            interp(strategies[name], t, temp, calls)
            exp_calls[name] = calls
            if calls:
                exp_blocks.append(name)
        if seen != exp_blocks:
            sim.violation("c13_run_order", "date #%d: strategies ran their stacks in blocks %s, expected %s (own stack first, each child once)" % (t, seen, exp_blocks), {})
            return judged
        for name in order_t:
            got = [r[0] for r in recs if r[1] == name]
            judged += 1
            if got != exp_calls[name]:
                sim.violation("c13_control_flow", "date #%d, %s: algos invoked %s, the reference interpreter says %s" % (t, name, got, exp_calls[name]), {"has_run_always": any(_has_ra(s) for s in strategies[name])})
                return judged
    # lifecycle facts recorded by the first spy of every stack
    for rec in sim.lifecycle:
        name, t, temp_keys, perm_count = rec
        if temp_keys:
            sim.violation("c13_temp_not_cleared", "date #%d, %s: temp not empty at the start of run: %s" % (t, name, sorted(temp_keys)[:4]), {})
            return judged
    last = {}
    for name, t, _k, perm_count in sim.lifecycle:
        if name in last and perm_count < last[name]:
            sim.violation("c13_perm_lost", "%s: perm data went from %d to %d entries" % (name, last[name], perm_count), {})
            return judged
        last[name] = perm_count
    return judged


def _has_ra(s):
    if (s.get("run_always") and s.get("run_always") != "off") or s.get("a") == "run_always":
        return True
    for k in ("algos",):
        for x in s.get(k, []):
            if _has_ra(x):
                return True
    if "algo" in s:
        return _has_ra(s["algo"])
    return False


class OOBMonitor(object):
    """RunIfOutOfBounds is True exactly when some held target deviates from its weight by more than the tolerance"""

    def __init__(self, sim):
        self.sim = sim
        self.judged = 0

    def pre(self, wrap, target):
        if type(wrap.inner).__name__ != "RunIfOutOfBounds":
            return None
        temp = target.temp
        ctx = {"has_weights": "weights" in temp, "has_cash": "cash" in temp}
        if ctx["has_weights"]:
            w = dict(temp["weights"].items())
            dev = {}
            from .. import taps

            for cn, c in taps.entry_view(self.sim, target).children.items():
                if cn in w and w[cn] != 0:
                    dev[cn] = abs((c.weight - w[cn]) / w[cn])
            ctx["dev"] = dev
        return ctx

    def post(self, wrap, target, r, ctx):
        if ctx is None:
            return
        sim = self.sim
        tol = wrap.inner.tolerance
        self.judged += 1
        sim.fire("oob_judged")
        if not ctx["has_weights"]:
            exp = True
        else:
            vals = list(ctx["dev"].values())
            if any(abs(d - tol) < 1e-9 for d in vals):
                return  # on the threshold: not judged
            exp = any(d > tol for d in vals)
            if ctx["has_cash"] and not exp:
                return  # the cash rule of the docstring is not part of the statement
        if bool(r) != exp:
            sim.violation("c13_out_of_bounds", "RunIfOutOfBounds(%r) returned %r; deviations of held targets: %s" % (tol, r, ctx.get("dev")), {"has_cash": ctx["has_cash"]})
