"""C18: every report of a finished backtest recomputed from the node histories."""
import numpy as np
import pandas as pd


def _close(a, b, scale, rel=1e-9):
    a = np.asarray(a, dtype=float)
    b = np.asarray(b, dtype=float)
    if a.shape != b.shape:
        return False
    m = ~(np.isnan(a) & np.isnan(b))
    if not m.any():
        return True
    return bool(np.all(np.abs(a[m] - b[m]) <= rel * scale)) and not np.isnan(a[m]).any() and not np.isnan(b[m]).any() or bool(np.all((np.abs(a - b) <= rel * scale) | (np.isnan(a) & np.isnan(b)) | (np.isinf(a) & np.isinf(b) & (np.sign(a) == np.sign(b)))))


def judge(sim, viol):
    bt = sim.bt
    bkt = sim.bkt
    root = bkt.strategy
    fi = bool(root.fixed_income)
    members = root.members
    secs = [m for m in members if not hasattr(m, "capital")]
    strs = [m for m in members if hasattr(m, "capital")]
    rv = (root.notional_values if fi else root.values).to_numpy(dtype=float)
    scale = max(1.0, float(np.nanmax(np.abs(root.values.to_numpy(dtype=float)))))

    def v(check, detail, **flags):
        viol.append({"check": check, "detail": detail, "flags": flags})

    # ---- component weights: each node's value over the root's value (notional for FI), keyed by full name
    w = bkt.weights
    names = [m.full_name for m in members]
    if sorted(w.columns) != sorted(set(names)):
        v("c18_weights", "weights columns %s, tree has %s" % (list(w.columns)[:6], names[:6]))
    else:
        with np.errstate(divide="ignore", invalid="ignore"):
            for m in members:
                nv = (m.notional_values if fi else m.values).to_numpy(dtype=float)
                exp = nv / rv
                got = w[m.full_name].to_numpy(dtype=float)
                if not _close(got, exp, 1.0):
                    i = int(np.nanargmax(np.abs(np.nan_to_num(got - exp))))
                    v("c18_weights", "weights[%s][%d] = %r, value / root value = %r" % (m.full_name, i, got[i], exp[i]))
                    break
    # ---- security weights aggregate same-named securities; with all strategies' cash fractions they sum to one
    sw = bkt.security_weights
    agg = {}
    for s in secs:
        a = (s.notional_values if fi else s.values).to_numpy(dtype=float)
        agg[s.name] = agg.get(s.name, 0) + a
    with np.errstate(divide="ignore", invalid="ignore"):
        if sorted(sw.columns) != sorted(agg):
            v("c18_security_weights", "security_weights columns %s, securities %s" % (list(sw.columns), sorted(agg)))
        else:
            for name, a in agg.items():
                if not _close(sw[name].to_numpy(dtype=float), a / rv, 1.0):
                    v("c18_security_weights", "security_weights[%s] is not the summed value of the securities of that name over the root value" % name, shared=sum(1 for s in secs if s.name == name) > 1)
                    break
            if not fi and secs:
                cash = sum(s.cash.to_numpy(dtype=float) for s in strs)
                tot = sw.sum(axis=1).to_numpy(dtype=float) + cash / rv
                ok = np.abs(rv) > 1e-9 * scale
                if ok.any() and not np.all(np.abs(tot[ok] - 1.0) <= 1e-9 * (1 + np.abs(cash[ok] / rv[ok]) + sw.abs().sum(axis=1).to_numpy()[ok])):
                    i = int(np.argmax(np.where(ok, np.abs(tot - 1.0), 0)))
                    v("c18_weights_sum", "security weights + cash fractions = %r on row %d" % (tot[i], i))
            # ---- Herfindahl index
            h = bkt.herfindahl_index.to_numpy(dtype=float)
            exp = (sw.to_numpy(dtype=float) ** 2).sum(axis=1) if len(sw.columns) else np.zeros(len(h))
            exp2 = np.zeros(len(rv))
            with np.errstate(divide="ignore", invalid="ignore"):
                for name, a in agg.items():
                    exp2 = exp2 + np.nan_to_num(a / rv) ** 2
            if len(h) == len(exp2) and not _close(np.nan_to_num(h), exp2, 1.0 + np.nanmax(exp2) if len(exp2) else 1.0):
                v("c18_herfindahl", "herfindahl_index differs from the sum of squared security weights")
    # ---- positions aggregate per ticker
    pos = bkt.positions
    pagg = {}
    for s in secs:
        pagg[s.name] = pagg.get(s.name, 0) + s.positions.to_numpy(dtype=float)
    if sorted(pos.columns) != sorted(pagg):
        v("c18_positions", "positions columns %s, securities %s" % (list(pos.columns), sorted(pagg)))
    else:
        for name, a in pagg.items():
            if not _close(pos[name].to_numpy(dtype=float), a, 1.0 + np.nanmax(np.abs(a))):
                v("c18_positions", "positions[%s] is not the sum over the securities of that name" % name, shared=sum(1 for s in secs if s.name == name) > 1)
                break
    # ---- transactions: quantities cumulate to positions; prices are execution prices (spread included)
    tx = root.get_transactions()
    has_bo = bool(root._bidoffer_set) if hasattr(root, "_bidoffer_set") else False
    idx = root.values.index
    for name, a in pagg.items():
        if len(tx):
            sub = tx[tx.index.get_level_values("Security") == name]
            q = pd.Series(0.0, index=idx)
            for (d, _s), row in sub.iterrows():
                q[d] += row["quantity"]
        else:
            sub = tx
            q = pd.Series(0.0, index=idx)
        cum = q.cumsum().to_numpy(dtype=float)
        if not _close(cum, a, 1.0 + np.nanmax(np.abs(a))):
            i = int(np.argmax(np.abs(cum - a)))
            v("c18_transactions_qty", "transactions of %s cumulate to %r on row %d, recorded position %r" % (name, cum[i], i, a[i]))
            break
        named = [s for s in secs if s.name == name]
        prc = named[0].prices.reindex(idx).to_numpy(dtype=float)
        bo = sum(s.bidoffers_paid.reindex(idx).to_numpy(dtype=float) / s.multiplier for s in named) if has_bo else np.zeros(len(idx))
        bad = False
        for (d, _s), row in sub.iterrows():
            i = idx.get_loc(d)
            qd = q.iloc[i]
            if abs(qd) < 1e-12:
                continue
            exp = prc[i] + bo[i] / qd
            if not (abs(row["price"] - exp) <= 1e-9 * (abs(exp) + 1)):
                v("c18_transactions_price", "transaction price of %s on %s is %r, execution price (feed price + spread paid per unit) is %r" % (name, d, row["price"], exp), shared=len(named) > 1, has_spread=has_bo)
                bad = True
                break
        if bad:
            break
    # ---- turnover: lesser of positive and negative outlays (per ticker) over NAV
    oagg = {}
    for s in secs:
        oagg[s.name] = oagg.get(s.name, 0) + s.outlays.to_numpy(dtype=float)
    if oagg:
        m = np.array([oagg[k] for k in sorted(oagg)])
        posv = np.where(m >= 0, m, 0).sum(axis=0)
        negv = np.abs(np.where(m < 0, m, 0).sum(axis=0))
        with np.errstate(divide="ignore", invalid="ignore"):
            exp = np.minimum(posv, negv) / root.values.to_numpy(dtype=float)
        got = bkt.turnover.to_numpy(dtype=float)
        if len(got) != len(exp) or not _close(np.nan_to_num(got, posinf=0, neginf=0), np.nan_to_num(exp, posinf=0, neginf=0), 1.0):
            v("c18_turnover", "turnover differs from min(positive outlays, |negative outlays|) / NAV")
    # ---- the Result's price series is the strategy's index
    res = bt.backtest.Result(bkt)
    got = res.prices[bkt.name].to_numpy(dtype=float)
    exp = root.prices.to_numpy(dtype=float)
    if len(got) != len(exp) or got.tobytes() != exp.tobytes():
        v("c18_result_prices", "Result.prices is not the strategy's index")
    return tx


def replay(sim, plan, tx, viol, run_light):
    """feed get_transactions() of the finished run to ReplayTransactions on the same feed"""
    bkt = sim.bkt
    root = bkt.strategy
    tickers = sorted({s.name for s in root.members if not hasattr(s, "capital")})
    if not tickers or len(tx) == 0:
        return False
    mults = {}
    for s in root.members:
        if not hasattr(s, "capital"):
            mults.setdefault(s.name, set()).add(float(s.multiplier))
    if any(len(v) > 1 for v in mults.values()):
        return False  # one name, several multipliers: the flat replay tree cannot represent it
    classes = {}
    for s in root.members:
        if not hasattr(s, "capital"):
            classes.setdefault(s.name, set()).add(type(s).__name__)
    if any(len(v) > 1 for v in classes.values()):
        return False  # one name, several node classes: the flat replay tree cannot represent it
    f = dict(plan["feed"])
    f["bidoffer"] = [[0.0 for _ in f["tickers"]] for _ in f["dates"]]
    fi = bool(root.fixed_income)
    # the replay book is of the same kind as the original (market value or notional accounting, same node class per ticker:
    # coupons and holding costs accrue on the replayed positions as they did on the original ones)
    tree = {"k": "S", "name": "replay", "cls": "FixedIncomeStrategy" if fi else "Strategy", "fi": fi, "how": "list", "children": [{"k": "X", "name": t, "cls": list(classes[t])[0], "mult": list(mults[t])[0], "decl": "obj"} for t in tickers], "algos": [{"a": "ReplayTransactions", "args": ["tx"]}]}
    p2 = {"driver": "engine", "cfg": dict(plan["cfg"], comm=None, integer=False, name="replay"), "tree": tree, "feed": f, "extra": {}}
    from .. import drive_engine

    s2 = drive_engine.EngineSim(sim.bt, p2, set())
    s2.light = True
    s2.extra_data = lambda: {"tx": tx}
    drive_engine.taps.set_current(None)
    try:
        s2.setup()
        s2.bkt.run()
    except ZeroDivisionError:
        return True  # the replayed book passes through an exactly-zero value (zero quote on everything held): a legitimate zero-base refusal
    except Exception as e:  # noqa
        viol.append({"check": "c18_replay", "detail": "replaying the transaction list raised %s: %s" % (type(e).__name__, str(e)[:120]), "flags": {"kind": "exception"}})
        return True
    a = {}
    for s in root.members:
        if not hasattr(s, "capital"):
            a[s.name] = a.get(s.name, 0) + s.positions.to_numpy(dtype=float)
    for s in s2.root.members:
        if hasattr(s, "capital"):
            continue
        x = s.positions.to_numpy(dtype=float)
        if not _close(x, a[s.name], 1.0 + np.nanmax(np.abs(a[s.name]))):
            i = int(np.argmax(np.abs(x - a[s.name])))
            viol.append({"check": "c18_replay", "detail": "replayed position of %s on row %d is %r, original %r" % (s.name, i, x[i], a[s.name][i]), "flags": {"kind": "positions"}})
            return True
    va = root.values.to_numpy(dtype=float)
    vb = s2.root.values.to_numpy(dtype=float)
    scale = max(1.0, float(np.nanmax(np.abs(va))))
    if not _close(va, vb, scale, rel=1e-8):
        # did some (date, ticker) pay spread on trades that net to zero (and hence do not appear in the list)?
        netted = False
        if root._bidoffer_set:
            bo = {}
            for s in root.members:
                if not hasattr(s, "capital"):
                    bo[s.name] = bo.get(s.name, 0) + np.abs(s.bidoffers_paid.to_numpy(dtype=float))
            for name, b in bo.items():
                dq = np.diff(np.concatenate([[0.0], a[name]]))
                if ((np.abs(dq) < 1e-12) & (b > 0)).any():
                    netted = True
        i = int(np.argmax(np.abs(va - vb)))
        viol.append({"check": "c18_replay", "detail": "replayed value on row %d is %r, original %r" % (i, vb[i], va[i]), "flags": {"kind": "values", "netted_spread": netted}})
    return True
