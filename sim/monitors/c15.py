"""C15: weighting algos behind the oracle wrapper; stated relations, not re-implementations of ffn."""
import numpy as np
import pandas as pd


def _items(w):
    if w is None:
        return None
    return dict(w.items())


class C15Monitor(object):
    def __init__(self, sim, plan):
        self.sim = sim
        self.plan = plan
        self.judged = 0
        self.kinds = {}

    def pre(self, wrap, target):
        from .. import taps

        t = target.temp
        src = taps.entry_view(self.sim, target)
        live = {cn: c.weight for cn, c in src.children.items()}
        return {"selected": list(t["selected"]) if "selected" in t else None, "weights": _items(t.get("weights")) if "weights" in t else None, "universe": target.universe, "now": target.now, "live": live,
                "value": src.value, "positions": {cn: getattr(c, "position", 0.0) for cn, c in src.children.items()}, "tv": getattr(wrap.inner, "target_volatility", None)}

    def v(self, check, detail, **flags):
        self.sim.violation(check, detail, flags)

    def window(self, u, now, kw):
        lb = pd.DateOffset(**kw["lookback"])
        lag = pd.DateOffset(**kw.get("lag", {"days": 0}))
        t0 = now - lag
        return u.loc[t0 - lb: t0]

    def post(self, wrap, target, r, ctx):
        spec = wrap.spec["inner"]
        a = spec["a"]
        kw = spec.get("kw", {})
        now = ctx["now"]
        u = ctx["universe"]
        sel = ctx["selected"]
        w = _items(target.temp.get("weights")) if "weights" in target.temp else None
        self.judged += 1
        self.kinds[a] = self.kinds.get(a, 0) + 1
        if u.index[-1] > now:
            self.v("c15_window", "%s saw a universe beyond now" % a)
            return

        def bad(msg, **fl):
            self.v("c15_weights", "%s%r on %s: %s (weights %s)" % (a, kw or spec.get("args") or "", now, msg, w), algo=a, **fl)

        if a == "WeighEqually":
            n = len(sel)
            if n == 0:
                if w != {}:
                    bad("empty selection must give no weights")
            elif set(w) != set(sel) or any(abs(x - 1.0 / n) > 1e-12 for x in w.values()) or abs(sum(w.values()) - 1) > 1e-9:
                bad("equal weights must be 1/n each and sum to one")
        elif a == "WeighSpecified":
            if w != spec["weights"]:
                bad("must be the specified weights verbatim")
        elif a == "ScaleWeights":
            s = spec["args"][0]
            prior = ctx["weights"]
            if set(w) != set(prior) or any(abs(w[k] - s * prior[k]) > 1e-12 * (1 + abs(prior[k])) for k in prior):
                bad("must be a linear rescale of the prior weights by %r (prior %s)" % (s, prior))
        elif a == "WeighTarget":
            fr = target.get_data(spec["args"][0])
            if now in fr.index:
                exp = fr.loc[now].dropna()
                if not r or w is None or set(w) != set(exp.index) or any(w[k] != exp[k] for k in exp.index):
                    bad("must be the dated target row with NaN dropped (%s)" % dict(exp))
            elif r:
                bad("returned True although no target is dated now")
        elif a in ("WeighInvVol", "WeighERC", "WeighMeanVar"):
            if len(sel) == 0:
                if w != {}:
                    bad("empty selection must give no weights")
                return
            if len(sel) == 1:
                if w != {sel[0]: 1.0}:
                    bad("single selection must get weight one")
                return
            rets = self.window(u, now, kw)[sel].pct_change().iloc[1:].dropna()
            ws = pd.Series(w)
            if ws.isnull().any() or len(rets) < 3:
                return
            if (ws < -1e-9).any() or abs(ws.sum() - 1.0) > 1e-6:
                bad("weights must be non-negative and sum to one")
                return
            if a == "WeighInvVol":
                sd = rets.std()
                prod = np.array([ws[k] * sd[k] for k in ws.index])
                if prod.max() - prod.min() > 1e-9 * (abs(prod).max() + 1e-300) + 1e-15:
                    bad("w_i x sigma_i must be equal over the window [now-lag-lookback, now-lag] (products %s)" % prod.tolist(), relation="inv_vol")
            elif a == "WeighERC":
                import sklearn.covariance

                cov = sklearn.covariance.ledoit_wolf(rets[list(ws.index)])[0]
                x = ws.to_numpy()
                rc = x * cov.dot(x)
                budget = kw.get("risk_weights")
                if budget is not None:
                    # budget[i] belongs to the i-th name of the selection
                    b = np.array([budget[sel.index(k)] for k in ws.index], dtype=float)
                    b = b / b.sum()
                    if rc.sum() > 0 and np.abs(rc / rc.sum() - b).max() > 5e-3:
                        bad("risk contributions must follow the risk budget %s in the order of the selection %s (shares %s for %s)" % (budget, sel, (rc / rc.sum()).round(4).tolist(), list(ws.index)), relation="erc_budget")
                elif rc.sum() > 0 and (rc.max() - rc.min()) / rc.sum() > 2e-3:
                    bad("risk contributions must be equal under the same covariance estimator (%s)" % (rc / rc.sum()).tolist(), relation="erc")
            else:
                lo, hi = kw.get("bounds", (0.0, 1.0))
                if (ws < lo - 1e-6).any() or (ws > hi + 1e-6).any():
                    bad("weights must respect the bounds %r" % ((lo, hi),))
        elif a == "WeighRandomly":
            lo, hi = kw.get("bounds", (0.0, 1.0))
            tot = kw.get("weight_sum", 1)
            n = len(sel)
            feasible = n > 0 and lo * n <= tot + 1e-12 and hi * n >= tot - 1e-12 and lo <= hi
            if not w:
                if feasible and n > 0 and lo * n < tot < hi * n:
                    bad("no weights although bounds %r and sum %r are feasible for %d names" % ((lo, hi), tot, n))
                return
            if set(w) != set(sel) or any(x < lo - 1e-9 or x > hi + 1e-9 for x in w.values()) or abs(sum(w.values()) - tot) > 1e-6:
                bad("random weights must lie in the bounds %r and sum to %r" % ((lo, hi), tot))
        elif a == "LimitWeights":
            prior = ctx["weights"]
            lim = kw.get("limit", 0.1)
            if prior is None or len(prior) == 0:
                return
            if lim < 1.0 / len(prior):
                if w != {}:
                    bad("infeasible cap (limit < 1/n) must give no weights")
                return
            ws = pd.Series(w)
            if ws.isnull().any():
                bad("capped weights contain NaN (prior %s, limit %r)" % (prior, lim), nan=True, zero_weight_prior=any(v == 0 for v in prior.values()))
                return
            if (ws > lim + 1e-9).any() or abs(ws.sum() - sum(prior.values())) > 1e-9:
                bad("capped weights must respect the cap %r and preserve the total %r (prior %s)" % (lim, sum(prior.values()), prior))
        elif a == "LimitDeltas":
            lim = kw.get("limit", 0.1)
            live = ctx["live"]
            prior = ctx["weights"]
            for k in set(live) | set(w):
                cur = live.get(k, 0.0)
                if isinstance(lim, dict) and k not in lim:
                    continue
                lk = lim[k] if isinstance(lim, dict) else lim
                if k in w and abs(w[k] - cur) > lk + 1e-9:
                    bad("target for %s is %r, live weight %r: change exceeds the limit %r" % (k, w[k], cur, lk), relation="delta")
                    return
                if k not in w and abs(0.0 - cur) > lk + 1e-9 and cur != 0:
                    bad("%s (live weight %r) is absent from the targets: an implied change to 0 exceeds the limit %r" % (k, cur, lk), relation="delta_absent")
                    return
                if k in w and k in prior and abs(prior[k] - cur) <= lk and abs(w[k] - prior[k]) > 1e-12:
                    bad("target for %s was within the limit and must be left alone" % k, relation="delta")
                    return
        elif a == "TargetVol":
            prior = ctx["weights"]
            if not prior:
                return
            tv = spec["args"][0]
            af = kw.get("annualization_factor", 252)
            rets = self.window(u, now, kw)[list(prior)].pct_change().iloc[1:]
            cov = rets.cov()
            x = np.array([w[k] for k in cov.columns])
            vol = float(np.sqrt(x.dot(cov.values).dot(x) * af))
            if vol != vol or len(rets.dropna()) < 3:
                return
            if abs(vol - tv) > 1e-6 * (1 + tv):
                bad("ex-ante volatility of the weights on the same window is %r, target %r" % (vol, tv), relation="target_vol", first_call=not isinstance(ctx["tv"], dict))
        elif a == "PTE_Rebalance":
            fr = self.sim.frames_by_name[spec["args"][1][1:]]
            cap = spec["args"][0]
            af = kw.get("annualization_factor", 252)
            pos = ctx["positions"]
            if not pos:
                return
            names = list(pos)
            prices = u.loc[now, names]
            cw = {n: pos[n] * prices[n] / ctx["value"] for n in names}
            tw = fr.loc[now]
            cols = list(names) + [c for c in tw.index if c not in names]
            d = np.array([cw.get(c, 0.0) - (tw[c] if c in tw.index else 0.0) for c in cols])
            rets = self.window(u, now, kw)[cols].pct_change().iloc[1:]
            cov = rets.cov()
            pte = float(np.sqrt(d.dot(cov.values).dot(d) * af))
            if pte != pte:
                if r:
                    bad("tracking-error volatility is undefined but the algo returned True")
                return
            if abs(pte - cap) < 1e-9:
                return
            if bool(r) != (pte > cap):
                bad("returned %r; tracking-error volatility of current vs target weights is %r, cap %r" % (r, pte, cap), relation="pte")
