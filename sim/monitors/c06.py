"""C06: Rebalance / RebalanceOverTime reach their targets (oracle wrapper around the real algo)."""
import math

from ..drive_tree import REL, TOL


class C06Monitor(object):
    def __init__(self, sim):
        self.sim = sim
        self.rot = {}  # wrapper id -> [armed weights, steps left, n]
        self.judged = 0

    def pre(self, wrap, target):
        sim = self.sim
        if target.fixed_income:
            return None
        temp = target.temp
        inner = wrap.inner
        name = type(inner).__name__
        from .. import taps

        src = taps.entry_view(sim, target)  # (never refreshes the live tree on behalf of the algo under test)
        base = src.value
        cur = {}
        for cn, c in src.children.items():
            cur[cn] = (c.value, c.weight, getattr(c, "position", None))
        weights = None
        if name == "Rebalance":
            if "weights" not in temp:
                return None
            weights = dict(temp["weights"].items())
        elif name == "RebalanceOverTime":
            st = self.rot.setdefault(id(wrap), [None, 0, float(inner.n)])
            if "weights" in temp:
                st[0] = dict(temp["weights"].items())
                st[1] = st[2]
            if st[0] is None:
                return None
            weights = {}
            for cn, w in st[0].items():
                c0 = cur[cn][1] if cn in cur else 0.0
                weights[cn] = c0 + (w - c0) / st[1]
            st[1] -= 1
            if st[1] == 0:
                st[0] = None
        else:
            return None
        cash = temp.get("cash", 0.0) if "cash" in temp else 0.0
        # internal fractions of sub-strategy targets (must be unchanged by a costless fractional transfer)
        internal = {}
        for cn in weights:
            c = src.children.get(cn)
            if c is not None and hasattr(c, "capital") and abs(c.value) > 0:
                internal[cn] = {g: gc.value / c.value for g, gc in c.children.items()}
                internal[cn]["__cash__"] = c.capital / c.value
        return dict(base=base, cur=cur, weights=weights, cash=cash, ntr=len(sim.trade_log), internal=internal, now=target.now)

    def post(self, wrap, target, r, ctx):
        if ctx is None:
            return
        sim = self.sim
        feed = sim.feed
        m = sim.model
        base = ctx["base"]
        weights = ctx["weights"]
        cash = ctx["cash"]
        trades = sim.trade_log[ctx["ntr"]:]
        costs = sum(abs(tr[5]) + abs(tr[6]) for tr in trades)
        integer = bool(target.integer_positions)
        costless = (sim.cfg.get("comm") is None or sim.cfg["comm"]["kind"] == "zero") and not feed.has("bidoffer")
        if any(w != w for w in weights.values()) or base != base:
            return
        if target.root.bankrupt:
            # the costs of the rebalance itself took the (tiny) equity below zero: the book was liquidated inside the call
            sim.incon("rebalance_ended_in_bankruptcy")
            return
        self.judged += 1
        sim.fire("rebalance_judged")
        scale = abs(base) + sum(abs(v[0]) for v in ctx["cur"].values()) + 1.0
        comm = m.comm
        for cn, w in weights.items():
            tgt = (1.0 - cash) * w * base
            c = target.children.get(cn)
            if c is None:
                if abs(w) > TOL:
                    # never created: only legitimate if the whole target rounds to nothing
                    p = feed.price(m.t, cn)
                    if integer and abs(tgt) < abs(p) + costs + 1e-9 * scale:
                        continue
                    sim.violation("c06_target_missing", "target %s (w=%r) was never created" % (cn, w), {})
                continue
            v = c.value
            if hasattr(c, "capital"):
                # a sub-strategy receives capital like a security; what it spends on spreading is cost
                tol = costs + 1e-9 * scale
                if abs(v - tgt) > tol:
                    sim.violation("c06_substrategy_target", "sub-strategy %s worth %r after Rebalance, target (1-c)*w*base = %r (costs paid %r)" % (cn, v, tgt, costs), {"integer": integer, "costless": costless})
                elif costless and not integer and cn in ctx["internal"] and abs(v) > 1e-6 * scale and abs(ctx["cur"][cn][0]) > 1e-6 * scale:
                    for g, f0 in ctx["internal"][cn].items():
                        f1 = (c.capital / v) if g == "__cash__" else (c.children[g].value / v if g in c.children else 0.0)
                        if abs(f1 - f0) > 1e-7 * (1 + abs(f0)):
                            sim.violation("c06_substrategy_spread", "capital moved into / out of %s changed its internal fraction of %s from %r to %r (not spread by weight)" % (cn, g, f0, f1), {})
                            break
                continue
            p = feed.price(m.t, cn)
            unit = abs(p * c.multiplier)
            if costless and not integer:
                tol = 1e-9 * scale
            else:
                spread = feed.get("bidoffer", m.t, cn) if feed.has("bidoffer") else 0.0
                one_more = 0.5 * spread * c.multiplier + abs(comm(1.0, p * c.multiplier))
                q = abs(v - ctx["cur"].get(cn, (0.0,))[0]) / unit if unit else 0.0
                tol = (unit if integer else 0.0) + costs + one_more + abs(comm(q + 1, p * c.multiplier)) + 1e-8 + 1e-9 * scale
            if abs(v - tgt) > tol:
                sim.violation("c06_target", "%s worth %r after %s, target (1-c)*w*base = %r (base %r, w %r, cash %r, unit %r, costs paid %r, was %r)" % (cn, v, type(wrap.inner).__name__, tgt, base, w, cash, unit, costs, ctx["cur"].get(cn)), {"integer": integer, "costless": costless, "had_cash": bool(cash), "from_flat": cn not in ctx["cur"] or not ctx["cur"][cn][2]})
        for cn, c in target.children.items():
            if cn in weights:
                continue
            if hasattr(c, "capital"):
                if abs(c.value) > costs + 1e-9 * scale and abs(ctx["cur"].get(cn, (0.0,))[0]) > 0:
                    sim.violation("c06_not_closed", "sub-strategy %s is not a target but still worth %r" % (cn, c.value), {})
                elif abs(ctx["cur"].get(cn, (0.0,))[0]) > 0:
                    # closed means closed all the way down: no open position anywhere below a dropped sub-strategy
                    for g in c.members:
                        if not hasattr(g, "capital") and abs(g.position) >= TOL:
                            sim.violation("c06_not_closed", "sub-strategy %s is not a target and worth %r, but %s below it still holds %r" % (cn, c.value, g.full_name, g.position), {"below_sub": True})
                            break
            elif abs(c.position) >= TOL and cn in ctx["cur"] and ctx["cur"][cn][0] != 0 and ctx["cur"][cn][0] == ctx["cur"][cn][0]:
                sim.violation("c06_not_closed", "%s is not a target but still holds %r" % (cn, c.position), {})
        if costless and not integer:
            exp_cash = base - sum((1.0 - cash) * w * base for w in weights.values())
            if abs(target.capital - exp_cash) > 1e-9 * scale * 10:
                sim.violation("c06_cash", "cash after Rebalance %r, expected base - sum(targets) = %r" % (target.capital, exp_cash), {"had_cash": bool(cash)})
