"""Tree driver (op level): seeded plans of public-API operations executed on a
real bt tree while the reference ledger follows through the taps.

Disciplines (see DESIGN 2.3): D1 no observation and no tick inside an
``update=False`` batch until an explicit ``root.update(now)``; D2 a date is closed
by a refresh before the next tick; D3 only the root is ticked.
"""
import copy
import math

from . import comm as commod
from . import feed as feedmod
from . import taps, trees
from .model import Model, isz

TOL = 1e-16
REL = 1e-9

SIZING_STEMS = ("Newton Method like root search", "The difference between what we have raised", "Potentially infinite loop detected")


class Stop(Exception):
    """run ends early (not a violation by itself)"""

    def __init__(self, why):
        Exception.__init__(self, why)
        self.why = why


# =========================================================================================
# plan generation
# =========================================================================================
PROFILES = {
    # name: knobs
    "accounting": dict(fi=0.0, p_batch=0.25, p_dup=0.08, p_read=0.08, faults=dict(late_listing=0.15, nan_tick=0.15, delisting=0.05, zero_run=0.12), coupon=0.25),
    "fi": dict(fi=1.0, p_batch=0.2, p_dup=0.08, p_read=0.08, faults=dict(late_listing=0.1, zero_run=0.2), coupon=1.0),
    "schedule": dict(fi=0.15, p_batch=0.3, p_dup=0.2, p_read=0.25, faults=dict(late_listing=0.1, nan_tick=0.1), coupon=0.3),
    "sizing": dict(fi=0.0, p_batch=0.1, p_dup=0.02, p_read=0.02, faults=dict(nan_tick=0.2, zero_tick=0.1, late_listing=0.1), coupon=0.0, sizing=True),
    "bankrupt": dict(fi=0.0, p_batch=0.1, p_dup=0.05, p_read=0.05, faults={}, coupon=0.3, leverage=True),  # (coupon-paying securities under a market-value root: carry is swept on the update that may liquidate)
}

PROPS_STRAT = ["value", "weight", "price", "notional_value", "capital", "prices", "values", "notional_values", "cash", "fees", "flows", "positions", "outlays"]
PROPS_SEC = ["value", "weight", "price", "notional_value", "position", "prices", "values", "notional_values", "positions", "outlays"]


def gen_plan(rng, profile="accounting", tier="quick", knobs=None):
    k = dict(PROFILES[profile])
    k.update(knobs or {})
    big = tier == "thorough"
    fi = rng.random() < k["fi"]
    ntick = rng.randint(2, 6 if big else 5)
    tickers = [chr(65 + i) for i in range(ntick)]
    ndates = rng.randint(3, 16 if big else 10)
    dates, style = feedmod.gen_dates(rng, ndates)
    prices, fired = feedmod.gen_prices(rng, ndates, tickers, faults=k["faults"])
    tree = trees.gen_tree(rng, tickers, fi=fi, allow_coupon=rng.random() < k["coupon"])
    mults = {}
    for _p, s in trees.securities(tree):
        mults[s["name"]] = max(mults.get(s["name"], 0), s["mult"])
    fspec = {"dates": dates, "tickers": tickers, "prices": prices, "style": style}
    # bid/offer spreads
    if rng.random() < 0.4:
        fspec["bidoffer"] = [[round(abs(p) * rng.choice([0.0, 0.001, 0.005, 0.02]), 6) if p is not None else 0.0 for p in row] for row in prices]
    needs_coupons = any(s["cls"] in ("CouponPayingSecurity", "CouponPayingHedgeSecurity") for _p, s in trees.securities(tree))
    if needs_coupons:
        fspec["coupons"] = [[rng.choice([0.0, 0.0, 0.01, 0.05, 0.002, -0.01]) for _ in tickers] for _ in range(ndates)]
        if rng.random() < 0.6:
            fspec["cost_long"] = [[rng.choice([0.0, 0.001, 0.003]) for _ in tickers] for _ in range(ndates)]
        if rng.random() < 0.6:
            fspec["cost_short"] = [[rng.choice([0.0, 0.002, 0.004]) for _ in tickers] for _ in range(ndates)]
    munit = feedmod.min_unit(prices) * min([s["mult"] for _p, s in trees.securities(tree)] + [1.0])
    cfg = {
        "integer": rng.random() < 0.5,
        "comm": commod.gen(rng, munit),
        "capital": rng.choice([1e4, 1e5, 1e6, 1e6, 12345.67, 1e7]),
        "fi": fi,
        "obs_price": rng.random() < 0.5,
        "flush": "eager",
        "profile": profile,
    }
    if fi and rng.random() < 0.5:
        cfg["capital"] = 0.0
    strat_list = trees.strategies(tree)
    nops = rng.randint(4, 70 if big else 45)
    ops = []
    ticks_left = ndates - 1
    # op mix (swarm): each run enables a random subset of op kinds
    kinds = ["alloc", "alloc", "alloc", "spread", "rebal", "rebal", "close", "flatten", "transact", "adjust", "adjust", "roundtrip"]
    if fi:
        kinds = ["transact", "transact", "rebal", "rebal", "close", "flatten", "tspread", "adjust", "alloc", "roundtrip"]
    enabled = [x for x in sorted(set(kinds)) if rng.random() < 0.75] or ["alloc"]
    kinds = [x for x in kinds if x in enabled]
    in_batch = False
    # D4: most runs fund their sub-strategies (top-down) before anything trades in them
    if len(strat_list) > 1 and rng.random() < 0.85:
        for si, (sp, ss) in enumerate(strat_list):
            kids = trees.candidates(ss, tickers)
            for ci, c in enumerate(kids):
                if c["k"] == "S" and rng.random() < 0.9:
                    ops.append({"op": "alloc", "n": si, "c": ci, "mode": "frac", "frac": rng.choice([0.1, 0.2, 0.3, 0.5]), "direct": False, "upd": True})
    for _ in range(nops):
        r = rng.random()
        if ticks_left > 0 and r < max(0.12, ticks_left / float(nops)):
            if in_batch:
                ops.append({"op": "flush"})
                in_batch = False
            ops.append({"op": "tick"})
            ticks_left -= 1
            continue
        if r > 1 - k["p_dup"]:
            ops.append({"op": "dup", "k": rng.randint(1, 3)})
            in_batch = False
            continue
        if r > 1 - k["p_dup"] - k["p_read"]:
            ops.append({"op": "read", "n": rng.randrange(64), "c": rng.randrange(64), "sec": rng.random() < 0.5, "prop": rng.randrange(64)})
            continue
        kind = rng.choice(kinds)
        upd = not (rng.random() < k["p_batch"])
        o = {"op": kind, "n": rng.randrange(64), "c": rng.randrange(64)}
        if kind == "alloc":
            mode = rng.choice(["frac", "frac", "frac", "frac", "close", "zero", "tiny"])
            o["mode"] = mode
            o["frac"] = round(rng.choice([1, 1, 1, -1]) * rng.choice([0.05, 0.1, 0.25, 0.33, 0.5, 0.9, 1.0, 1.5]) * (1 if not k.get("leverage") else rng.choice([1, 2, 3])), 4)
            o["direct"] = rng.random() < 0.4
            o["upd"] = upd if o["direct"] else True
            if k.get("sizing"):
                o["mode"] = rng.choice(["frac", "units", "units", "close", "close_ulp", "close_near", "tiny", "zero"])
                # close_near: an amount close to, but not, minus the holding's value (relative distance 1e-11 .. 1e-4)
                o["rel"] = rng.choice([1, -1]) * 10 ** rng.uniform(-11, -4)
                o["units"] = rng.choice([1, 2, 3, 7, 50]) * rng.choice([1, -1])
                o["eps"] = rng.choice([0.0, 1e-9, -1e-9, 0.01, -0.01, 0.5, -0.5])
                o["ill"] = rng.random() < 0.3
        elif kind == "spread":
            o["frac"] = round(rng.choice([1, 1, -1]) * rng.choice([0.1, 0.25, 0.5, 1.0]), 4)
            o["upd"] = upd
        elif kind == "rebal":
            o["w"] = round(rng.choice([1, 1, 1, -1]) * rng.choice([0.0, 0.1, 0.2, 0.3, 0.5, 0.8, 1.0]), 4)
            o["base"] = rng.choice([None, None, "value", 0.5, 2.0])
            o["upd"] = upd
        elif kind == "close":
            o["upd"] = upd
        elif kind == "flatten":
            pass
        elif kind == "transact":
            o["qfrac"] = round(rng.choice([1, 1, -1]) * rng.choice([0.05, 0.2, 0.5, 1.0]), 4)
            o["upd"] = upd
            o["direct"] = rng.random() < 0.5
            if not o["direct"]:
                o["upd"] = True
            o["custom"] = rng.choice([None, None, None, 1.01, 0.98, 1.0, 0.0])
        elif kind == "roundtrip":
            o["qfrac"] = round(rng.choice([1, -1]) * rng.choice([0.05, 0.2, 0.5]), 4)
            o["c1"] = rng.choice([None, 1.0, 1.01, 0.99])
            o["c2"] = rng.choice([None, 1.0, 1.02, 0.97])
            o["back"] = rng.choice([1.0, 1.0, 1.0, 0.5])
            o["obs_between"] = rng.random() < 0.4
            o["upd"] = upd
        elif kind == "tspread":
            o["qfrac"] = round(rng.choice([1, -1]) * rng.choice([0.1, 0.5]), 4)
            o["upd"] = upd
        elif kind == "adjust":
            o["frac"] = round(rng.choice([1, 1, -1]) * rng.choice([0.01, 0.1, 0.5, 1.0]), 4)
            o["flow"] = rng.random() < 0.6
            o["upd"] = upd
            o["root"] = rng.random() < 0.7
            if rng.random() < 0.12 and upd:
                # a contribution is booked, (the book is valued,) the contribution is reversed and booked again as income: the day's
                # net flows return to exactly zero while the value keeps the amount
                o["rebook"] = True
                o["valued_between"] = rng.random() < 0.7
        if o.get("upd") is False:
            in_batch = True
        elif "upd" in o or kind == "flatten":
            pass
        if rng.random() < 0.25 and o.get("upd", True) and kind in ("alloc", "rebal", "close", "transact", "adjust", "spread", "roundtrip"):
            o["fresh"] = [rng.randrange(64), rng.randrange(64), rng.random() < 0.5, rng.randrange(64)]
        ops.append(o)
    if in_batch:
        ops.append({"op": "flush"})
    return {"driver": "tree", "cfg": cfg, "tree": tree, "feed": fspec, "ops": ops, "fired": fired}


# =========================================================================================
# execution
# =========================================================================================
class TreeSim(taps.Sim):
    def __init__(self, bt, plan, judge):
        self.plan = plan
        self.cfg = plan["cfg"]
        self.feed = feedmod.Feed(plan["feed"])
        self.judge = judge  # set of property ids whose oracles are evaluated
        model = Model(trees.model_spec(plan["tree"]), self.feed, commod.make(self.cfg.get("comm") or {"kind": "zero"}))
        taps.Sim.__init__(self, bt, model)
        self.in_batch = False
        self.fired = dict(plan.get("fired", {}))
        self.states = set()
        self.bigrams = set()
        self.last_op = None
        self.nobs = 0
        self.nops_done = 0
        self.inconclusive = {}
        self.stop_reason = None
        self.prefix_digests = []  # (t, {path: bytes})
        self.bankrupt_expected = False
        self.may_be_bankrupt = False
        self.alloc_events = []
        self.last_obs_val = {}
        self.ill_ok = False
        if "C05" in judge:
            self.on_sec_allocate = self._c05
        elif plan.get("twin_scale") or plan.get("twin_flush"):
            self.on_sec_allocate = self._near_close_watch
        self.near_close = 0
        self._upd_val = None
        self._was_bankrupt = False
        self.bankrupt_at = None
        self.bankrupt_seq = None
        self.bankrupt_mid_run = False

    def _near_close_watch(self, sec, amount, update, orig):
        """twin runs: an amount within float noise of -value sits on the close-out shortcut's exact-equality
        threshold; which side it falls on is rounding noise (threshold band -> the twin is inconclusive)"""
        v = sec.position * self.feed.price(self.model.t, sec.name) * sec.multiplier
        if v == v and amount == amount:
            d = abs(amount + v)
            if 0 < d < 1e-9 * (abs(amount) + abs(v) + 1e-300) or (d == 0 and amount != 0):
                self.near_close += 1
        return orig(sec, amount, update)

    # ------------------------------------------------------------------ C05: budget rule at every SecurityBase.allocate
    def _c05(self, sec, amount, update, orig):
        m = self.model
        feed = self.feed
        name = sec.name
        price = feed.price(m.t, name)
        mult = sec.multiplier
        spread = feed.get("bidoffer", m.t, name) if feed.has("bidoffer") else 0.0
        parent = sec.parent
        pos0 = sec.position
        cap0 = parent.capital
        booked0 = self.comm_booked
        ntr0 = len(self.trade_log)
        integer = bool(sec.integer_positions)
        comm = m.comm
        self.n_alloc = getattr(self, "n_alloc", 0) + 1

        def cost(q):
            if q == 0:
                return 0.0
            return q * price * mult + 0.5 * abs(q) * spread * mult + comm(q, price * mult)

        flags = {"integer": integer, "side": "buy" if amount > 0 else "sell", "from": "flat" if abs(pos0) < TOL else ("long" if pos0 > 0 else "short")}
        flags["amount_ge_2pow25"] = bool(abs(amount) >= 2.0 ** 25)  # (from 3.36e7 on one ulp of the outlay is 7.5e-9: the absolute 1e-8 closeness test is at float resolution)
        bad_price = (price != price) or abs(price) < TOL
        try:
            r = orig(sec, amount, update)
        except Exception as e:  # noqa
            msg = str(e)
            if any(msg.startswith(st) for st in SIZING_STEMS):
                flags["stem"] = msg[:24]
                self.violation("c05_sizing_exception", "allocate(%r) to %s raised: %s (price=%r mult=%r pos=%r comm=%s)" % (amount, name, msg[:60], price, mult, pos0, self.cfg["comm"]), flags)
            elif bad_price and abs(amount) >= TOL:
                self.fire("refused_bad_price")
                if sec.position != pos0 or parent.capital != cap0:
                    self.violation("c05_refuse_state", "refused allocate at price %r changed state" % price, flags)
            elif msg.startswith("Cannot allocate capital to ") and not bad_price:
                # refused although today's quote is fine: no quantity traded where the rule asks for the largest affordable one
                self.violation("c05_refuse_spurious", "allocate(%r) to %s was refused (%s) although its price on %s is %r" % (amount, name, msg[-40:], parent.now, price), flags)
            raise
        pos1 = sec.position
        cap1 = parent.capital
        # the traded quantity as executed (the position difference loses it when |q| << |position|)
        q = sum(tr[2] for tr in self.trade_log[ntr0:])
        if abs((pos1 - pos0) - q) > 1e-9 * (abs(pos0) + abs(q) + 1e-300) + 1e-12:
            self.violation("c05_position", "position moved by %r, executed quantity %r" % (pos1 - pos0, q), {})
        if abs(amount) < TOL:
            if q != 0 or cap1 != cap0:
                self.violation("c05_zero_amount", "allocate(0) changed position by %r / cash by %r" % (q, cap1 - cap0), flags)
            return r
        if bad_price:
            self.violation("c05_refuse", "allocate(%r) at price %r was not refused" % (amount, price), flags)
            return r
        if price < 0:
            return r
        unit = price * mult
        if abs(pos0 * unit) >= 1e13 or abs(amount) >= 1e13:
            # beyond float resolution of whole units / cents (positions this large only arise from weights on float residue)
            self.incon("astronomic_magnitude")
            return r
        self.fire("alloc_judged")
        tol = 1e-8 + 1e-9 * max(abs(amount), abs(unit))
        value0 = pos0 * price * mult
        # "exactly minus the current value": the library's own float resolution for zero (1e-16 absolute) decides what is exact
        if abs(amount + value0) < TOL and abs(pos0) >= TOL:
            self.fire("alloc_exact_close")
            if pos1 != 0:
                self.violation("c05_close", "allocate(-value) left position %r (pos before %r)" % (pos1, pos0), flags)
            return r
        c = cost(q)
        flags["q_is_minus_pos"] = bool(q == -pos0 and abs(pos0) >= TOL)
        # the first guess of the sizing search as the statement's anchor describes it: amount / unit with direction-dependent rounding
        q0 = amount / unit
        if integer:
            q0 = math.floor(q0) if (pos0 > 0 or (abs(pos0) < TOL and amount > 0)) else math.ceil(q0)
        flags["first_guess_is_minus_pos"] = bool(q0 == -pos0 and abs(pos0) >= TOL)
        flags["q_zero"] = bool(q == 0)
        flags["comm"] = (self.cfg.get("comm") or {"kind": "zero"})["kind"]
        flags["amount_lt_unit"] = bool(abs(amount) < abs(unit))
        flags["wrong_way"] = bool(q * amount < 0)
        flags["fee_at_zero"] = bool(comm(0.0, price * mult) > 0)
        flags["crosses_zero"] = bool(pos0 * pos1 < 0)
        if integer and float(pos0).is_integer() and not float(q).is_integer():
            self.violation("c05_integral", "integer positions but traded %r" % q, flags)
        if c > amount + tol:
            self.violation("c05_overspend", "allocate(%r) traded q=%r costing %r > amount (price=%r mult=%r spread=%r pos=%r comm=%s)" % (amount, q, c, price, mult, spread, pos0, self.cfg["comm"]), flags)
        elif integer:
            if float(q + 1).is_integer() and cost(q + 1) <= amount - tol:
                self.violation("c05_underfill", "allocate(%r) traded q=%r (cost %r) although q+1 costs %r <= amount (price=%r mult=%r pos=%r comm=%s)" % (amount, q, c, cost(q + 1), price, mult, pos0, self.cfg["comm"]), flags)
        else:
            # (when even an infinitesimal trade costs more than the amount - fee at zero size - doing nothing is right)
            if c < amount - tol and not (q == 0 and cost(math.copysign(1e-9, amount)) > amount):
                self.violation("c05_underfill", "fractional allocate(%r) traded q=%r costing %r != amount (price=%r mult=%r pos=%r comm=%s)" % (amount, q, c, price, mult, pos0, self.cfg["comm"]), flags)
        if abs((cap1 - cap0) + c) > 1e-9 * (abs(c) + abs(cap0) + 1):
            self.violation("c05_cash", "parent cash moved by %r, cost of the trade is %r" % (cap1 - cap0, c), flags)
        if getattr(self, "commfn", None) is not None and self.comm_booked - booked0 != (1 if q != 0 else 0):
            self.violation("c05_probe_booked", "%d commission evaluations booked for one allocate (q=%r)" % (self.comm_booked - booked0, q), flags)
        return r

    def fire(self, k, n=1):
        self.fired[k] = self.fired.get(k, 0) + n

    def incon(self, k):
        self.inconclusive[k] = self.inconclusive.get(k, 0) + 1

    def date_index(self, date):
        return self._didx[date]

    def on_root_update_enter(self, date):
        outer = self.depth_update == 0
        taps.Sim.on_root_update_enter(self, date)
        if outer:
            v = self.model.value(self.model.root)
            self._upd_val = v
            self._upd_tol = REL * self.model.gross()
            self._was_bankrupt = bool(self.root.bankrupt)

    def on_root_update_exit(self, date):
        if self.depth_update:
            return
        if getattr(self, "engine", False):
            self.in_batch = False  # a completed root update has delivered every pending change
        root = self.root
        v = self._upd_val
        if v != v:
            if self.model.open_nan():
                self.c10("open_nan_missed", "update on %s succeeded although %s is open at a NaN price" % (date, self.model.open_nan()[0],), {})
            elif self.model.open_nan_coupon():
                pass
        if self.cfg.get("ill") == "nan_coupon" and self.model.open_nan_coupon():
            self.c10("open_nan_missed", "update on %s succeeded although %s is open and its coupon for the date is missing" % (date, self.model.open_nan_coupon()[0],), {"what": "coupon"})
        if root.fixed_income or v != v:
            return
        if v < -self._upd_tol:
            if not root.bankrupt:
                self.violation("bankrupt_missed", "root value %r < 0 at an update on %s but the strategy is not flagged bankrupt" % (v, date))
            elif not self._was_bankrupt:
                self.bankrupt_at = self.model.t
                self.bankrupt_seq = self.seq  # event number of the liquidation (trades logged later were made on a liquidated tree)
                self.bankrupt_mid_run = bool(getattr(self, "in_run", False))  # declared by an update inside the date's algo run?
                self.fire("bankruptcy")
                if self.bankrupt_mid_run:
                    self.fire("bankruptcy_mid_run")
                # clean: every position in the whole tree is closed by the liquidation
                for n in root.members:
                    if not hasattr(n, "capital") and abs(n.position) >= TOL:
                        self.violation("bankrupt_residual", "after the bankruptcy liquidation on %s %s still holds %r" % (date, n.full_name, n.position), {"nested": n.parent is not root, "integer": bool(n.integer_positions)})
                        break
        elif v > self._upd_tol:
            if root.bankrupt and not self._was_bankrupt:
                self.violation("bankrupt_spurious", "flagged bankrupt at an update on %s although root value is %r" % (date, v))
        elif v == 0.0 and self.model.root.first_activity_t is None and self.model.ntrades == 0:
            # structurally exact zero (nothing has ever moved through the tree): a value that is not negative
            if root.bankrupt and not self._was_bankrupt:
                self.violation("bankrupt_spurious", "flagged bankrupt at an update on %s although the strategy is worth exactly 0 (never funded)" % (date,), {"exact_zero": True})
        else:
            self.incon("bankrupt_band")

    # ------------------------------------------------------------------ setup
    def setup(self):
        bt = self.bt
        import pandas as pd

        fr = self.feed.frames(synthetic=True)
        data = fr["prices"]
        self.dates = list(data.index)
        self._didx = {d: i - 1 for i, d in enumerate(self.dates)}
        root = trees.build(bt, self.plan["tree"])
        self.root = root
        root.use_integer_positions(self.cfg["integer"])
        self.commfn = commod.Counting(self.cfg["comm"], self)
        root.set_commissions(self.commfn)
        kw = {k: v for k, v in fr.items() if k != "prices"}
        self.kw = kw
        taps.set_current(self)
        if self.cfg.get("ill") == "fi_child":
            self.fire("ill_fi_child")
            try:
                root.setup(data, **kw)
                self.c10("ill_not_raised", "fixed-income sub-strategy under a market-value parent was accepted by setup", {"ill": "fi_child"})
            except ValueError:
                self.ill_ok = True
            raise Stop("ill_fi_child")
        self.strats = trees.strategies(self.plan["tree"])
        self.guarded(lambda: root.setup(data, **kw), "setup")
        if self.cfg["capital"]:
            self.guarded(lambda: root.adjust(self.cfg["capital"]), "initial capital")
        self.guarded(lambda: root.update(self.dates[0]), "first update")
        self.ti = 0  # position in self.dates
        self.strats = trees.strategies(self.plan["tree"])
        self.observe()

    # ------------------------------------------------------------------ node lookup
    def rnode(self, path):
        n = self.root
        for p in path[1:]:
            n = n.children[p]
        return n

    def mvalue(self, path):
        try:
            return self.model.value(self.model.node(path))
        except KeyError:
            return 0.0

    # ------------------------------------------------------------------ predictions
    def zero_base_hazard(self):
        """'must' / 'either' / None : can / must a root.update() now raise ZeroDivisionError
        (return on a zero base)?  'must' additionally needs the node's value to have changed
        since the last observation (otherwise the implementation does not recompute the return)."""
        m = self.model
        worst = None
        scale = m.gross()
        band = REL * scale
        for n in m.strats():
            v = m.value(n)
            if v != v:
                continue
            changed = abs(v - self.last_obs_val.get(n.path, 0.0)) > band
            if n.fi:
                nv = m.notional(n)
                pnl = v - (n.last_value + n.flows_today)
                if isz(n.last_notl) and isz(nv):
                    if abs(pnl) > band and changed and n.last_notl == 0.0 and nv == 0.0:
                        worst = "must"
                    elif not isz(pnl) or self.touched(n):
                        # (the implementation's pnl may carry float residue of the day's activity where the model's is exactly zero)
                        worst = worst or "either"
                elif abs(n.last_notl) < band and abs(nv) < band and not isz(pnl):
                    worst = worst or "either"
            else:
                bottom = n.last_value + n.flows_today
                if isz(bottom):
                    # 'must' only when the zero base is structurally exact (nothing ever moved through the node before
                    # today, no flows today): otherwise the implementation's base may carry float residue
                    exact = n.last_value == 0.0 and n.flows_today == 0.0 and (n.first_activity_t is None or n.first_activity_t == m.t)
                    if abs(v) > band and changed and exact:
                        worst = "must"
                        self._hz_detail = "%s: last value %r + net flows %r = 0, value %r (was %r at the last observation)" % (n.path, n.last_value, n.flows_today, v, self.last_obs_val.get(n.path, 0.0))
                    elif not isz(v) or self.touched(n):
                        # the implementation's value may carry float residue where the model's is exactly zero
                        worst = worst or "either"
                elif abs(bottom) < band:
                    worst = worst or "either"
        return worst

    def paper_open_nan(self):
        """does some paper-trading copy of a sub-strategy hold a security whose current feed price is NaN?
        (paper copies trade a fixed notional even when the live child holds nothing)"""
        t = self.model.t

        def walk(strat):
            for c in strat.children.values():
                if hasattr(c, "capital"):
                    p = getattr(c, "_paper", None)
                    if p is not None:
                        for n in p.members:
                            if not hasattr(n, "capital") and abs(n.position) >= TOL:
                                fp = self.feed.price(t, n.name)
                                if fp != fp:
                                    return True
                        if walk(p):
                            return True
                    if walk(c):
                        return True
            return False

        return walk(self.root)

    def paper_zero_base(self, msg):
        """was the return-on-a-zero-base error raised by a paper-trading copy (they trade a fixed notional of their own, not
        modelled by the ledger) whose base - last value plus net flows - is zero?"""
        if not msg.startswith("Could not update "):
            return False
        name = msg[len("Could not update "):].split(" on ")[0]
        found = []

        def walk(strat):
            for c in strat.children.values():
                if hasattr(c, "capital"):
                    p = getattr(c, "_paper", None)
                    if p is not None:
                        for n in p.members:
                            if hasattr(n, "capital") and n.name == name and abs(getattr(n, "_last_value", 1.0) + getattr(n, "_net_flows", 0.0)) < TOL:
                                found.append(n)
                        walk(p)
                    walk(c)

        walk(self.root)
        return bool(found)

    def touched(self, n):
        """has anything ever moved through this strategy today (so that float residue is possible)?"""
        if n.cash != 0.0 or n.flows_today != 0.0 or n.last_value != 0.0 or n.fees_today != 0.0 or n.activity_today:
            return True
        for c in n.children.values():
            if c.issec:
                if c.pos != 0.0 or c.trades_today:
                    return True
            elif self.touched(c):
                return True
        return False

    # ------------------------------------------------------------------ guarded update
    def guarded(self, fn, what):
        """Run fn (which may refresh the tree); classify exceptions against the model's predictions."""
        m = self.model
        try:
            return fn()
        except ZeroDivisionError as e:
            hz = self.zero_base_hazard()
            if hz is None and self.paper_zero_base(str(e)):
                # the library's own paper-trading copy of a sub-strategy was fully invested in a name quoted at zero (a held
                # position without a positive price: not well-formed input), and now moves off that zero base
                self.fire("zero_base_raise_in_paper_copy")
                raise Stop("zero_base")
            if hz is None:
                self.c10("unexpected_exception", "%s: ZeroDivisionError %s" % (what, str(e)[:200]), {"exc": "ZeroDivisionError"})
                raise Stop("unexpected_zde")
            self.fire("zero_base_raise")
            raise Stop("zero_base")
        except Stop:
            raise
        except Exception as e:  # noqa
            msg = str(e)
            if any(msg.startswith(s) for s in SIZING_STEMS):
                la = self.last_sec_alloc
                # (the regime of the failing search, as the C05 oracle records it: position mode and size of the amount)
                self.c10("sizing_exception", "%s: %s" % (what, msg[:120]), {"exc": "sizing", "stem": msg[:24], "integer": bool(self.cfg.get("integer")), "amount_ge_2pow25": bool(la is not None and abs(la[1]) >= 2.0 ** 25)})
                raise Stop("sizing_exception")
            if msg.startswith("Cannot allocate capital to "):
                name = msg[len("Cannot allocate capital to "):].split(" because")[0]
                p = self.feed.price(m.t, name)
                la = self.last_sec_alloc
                # a refusal needs a trade: an allocation of exactly nothing "does nothing" (C05), whatever the quote
                asked = la is not None and la[0] == name and not (abs(la[1]) < TOL)
                if (p != p or abs(p) < TOL) and asked:
                    self.fire("refused_trade_bad_price")
                    raise Stop("trade_at_bad_price")
            if "latest price is NaN" in msg and (m.open_nan() or self.paper_open_nan()):
                self.fire("open_nan_raise")
                raise Stop("open_nan")
            if "latest coupon is NaN" in msg and m.open_nan_coupon():
                self.fire("open_nan_coupon_raise")
                raise Stop("open_nan_coupon")
            self.c10("unexpected_exception", "%s: %s: %s" % (what, type(e).__name__, msg[:200]), {"exc": type(e).__name__, "stem": msg[:40]})
            raise Stop("unexpected_exception")

    def c10(self, check, detail, flags):
        self.violation("C10." + check, detail, flags)

    # ------------------------------------------------------------------ observation
    def observe(self):
        """Read the whole tree through public properties and compare with the ledger."""
        if self.in_batch:
            return
        if self.cfg.get("flush") == "lazy":
            return  # lazy schedule: nothing is read between operations (C08 schedule twins)
        m = self.model
        root = self.root
        self.nobs += 1
        hz = self.zero_base_hazard() if root.stale else None
        rv = self.guarded(lambda: root.value, "observe")
        if hz == "must":
            self.c10("zero_base_missed", "a strategy's value moved off a zero base but no error was raised: %s" % getattr(self, "_hz_detail", ""), {})
        mv = m.value(m.root)
        scale = m.gross()
        # (float residue left in cash by the largest amounts the run has handled stays when the book shrinks - a position quoted
        # at zero, everything sold: the noise floor follows the run's peak notional, the relative tolerance today's book)
        tol = REL * scale + 1e-12 * m.peak_ever
        J = self.judge
        ok = True
        # ---- every node
        stack = [(root, m.root)]
        sign = []
        while stack:
            node, mn = stack.pop()
            if not hasattr(node, "capital"):
                pos = node.position
                mpos = mn.pos if mn is not None else 0.0
                price = self.feed.price(m.t, node.name)
                sign.append(0 if pos == 0 else (1 if pos > 0 else -1))
                if abs(pos - mpos) > 1e-9 * (1 + abs(mpos)):
                    self.violation("ledger_pos", "%s position impl=%r model=%r" % (taps.path_of(node), pos, mpos))
                    ok = False
                v = node.value
                if pos == 0 or abs(pos) < TOL:
                    ev = 0.0
                else:
                    ev = pos * price * node.multiplier
                if not (abs(v - ev) <= tol):
                    self.violation("sec_value", "%s value impl=%r expected pos*price*mult=%r (pos=%r price=%r)" % (taps.path_of(node), v, ev, pos, price))
                    ok = False
                if self.cfg["obs_price"]:
                    ip = node.price
                    if not ((ip != ip and price != price) or ip == price):
                        # a security may legitimately still carry yesterday's price only if it was never refreshed; reading .price refreshes
                        self.violation("sec_price", "%s price impl=%r feed=%r" % (taps.path_of(node), ip, price))
                        ok = False
                continue
            # strategy
            cap = node.capital
            mcash = mn.cash
            if not (abs(cap - mcash) <= tol):
                self.violation("ledger_cash", "%s capital impl=%r model=%r" % (taps.path_of(node), cap, mcash))
                ok = False
            v = node.value
            s = cap
            kids = list(node.children.values())
            for c in kids:
                s += c.value
            if not (abs(v - s) <= tol):
                self.violation("value_identity", "%s value=%r but cash+children=%r" % (taps.path_of(node), v, s))
                ok = False
            emv = m.value(mn)
            if not (abs(v - emv) <= tol):
                self.violation("ledger_value", "%s value impl=%r model=%r" % (taps.path_of(node), v, emv))
                ok = False
            # notional
            nv = node.notional_value
            env = m.notional(mn)
            if not (abs(nv - env) <= tol):
                self.violation("notional", "%s notional impl=%r model=%r" % (taps.path_of(node), nv, env))
                ok = False
            # weights of children
            wsum = 0.0
            fi = node.fixed_income
            for c in kids:
                w = c.weight
                if fi:
                    d = nv
                    num = c.notional_value
                else:
                    d = v
                    num = c.value
                if d == 0:
                    ew = 0.0
                    amb = False
                elif abs(d) < TOL:
                    # float residue around the library's zero threshold (1e-16): whether the implementation's own sum fell
                    # below it when the weights were computed is rounding noise - 0 and value / parent value are both right
                    ew = 0.0
                    amb = True
                else:
                    ew = num / d
                    amb = abs(d) < tol
                if amb:
                    self.incon("weight_band")
                elif not (abs(w - ew) <= 1e-9 * (1 + abs(ew))):
                    self.violation("weight_fi" if fi else "weight", "%s weight=%r expected %r (num=%r den=%r)" % (taps.path_of(c), w, ew, num, d))
                    ok = False
                wsum += w
            if not fi and kids and abs(v) >= tol and abs(v) > TOL:
                tot = wsum + cap / v
                if not (abs(tot - 1.0) <= 1e-9 * (1 + sum(abs(c.weight) for c in kids))):
                    self.violation("weight_sum", "%s weights+cash fraction=%r" % (taps.path_of(node), tot))
                    ok = False
            for c in kids:
                cm = mn.children.get(c.name) if mn is not None else None
                if cm is None and hasattr(c, "capital"):
                    raise AssertionError("model lacks strategy %s" % c.name)
                stack.append((c, cm))
        # model securities that the implementation never created must be flat
        for s in m.secs():
            if not isz(s.pos):
                try:
                    self.rnode(s.path)
                except KeyError:
                    self.violation("ledger_pos", "%s model pos %r but node absent" % (s.path, s.pos))
        # ---- the root's positions frame (built on demand from the securities' histories): its row for the current date is the
        # position held now, whatever was read before on this date (every third observation: the frame is costly to build)
        if self.nobs % 3 == 0:
            fr = root.positions
            exp = {}
            for s in m.secs():
                exp[s.path[-1]] = exp.get(s.path[-1], 0.0) + s.pos
            if len(fr.index):
                last = fr.iloc[-1]
                for name in sorted(set(exp) | set(fr.columns)):
                    got = float(last[name]) if name in fr.columns else 0.0
                    if got != got:
                        got = 0.0
                    e = exp.get(name, 0.0)
                    if abs(got - e) > 1e-9 * (1 + abs(e)):
                        self.violation("freshness", "root.positions[%s] on the current date is %r, the tree holds %r (frame read after a delivered update)" % (name, got, e))
                        ok = False
                        break
        # ---- bankruptcy: sub-strategies / FI never flagged (root expectations are checked at every root update)
        if root.fixed_income and root.bankrupt:
            self.violation("bankrupt_fi", "fixed income root flagged bankrupt")
        for p, _s in self.strats[1:]:
            if self.rnode(p).bankrupt:
                self.violation("bankrupt_sub", "sub-strategy %s flagged bankrupt" % (p,))
        for n in m.strats():
            self.last_obs_val[n.path] = m.value(n)
        m.reset_equity_watch()
        st = (len(self.strats), tuple(sign), m.t, self.last_op)
        self.states.add(hash(st) & 0xFFFFFFFF)
        return ok

    # ------------------------------------------------------------------ snapshots (C08)
    def snapshot(self, root=None):
        """observable state: every node's history frame (public scalars are read first, by the caller,
        so that lazily refreshed flat securities are in the same state for both snapshots)."""
        root = root or self.root
        out = []
        for n in root.members:
            out.append(n.full_name)
            out.append(n.data.to_numpy(dtype=float, na_value=float("nan")).tobytes())
        return out

    def snap_diff(self, a, b, pa, pb):
        import numpy as np

        for i in range(0, len(a), 2):
            if a[i + 1] != b[i + 1]:
                x = np.frombuffer(a[i + 1])
                y = np.frombuffer(b[i + 1])
                k = [j for j in range(len(x)) if not (x[j] == y[j] or (x[j] != x[j] and y[j] != y[j]))]
                return "history of %s differs at flat cells %s: %s -> %s" % (a[i].split("|")[0], k[:4], [x[j] for j in k[:4]], [y[j] for j in k[:4]])
        for k in pa:
            if repr(pa[k]) != repr(pb[k]):
                return "public scalars of %s: %r -> %r" % (k, pa[k], pb[k])
        return "?"

    def public_scalars(self, root):
        out = {}
        for n in root.members:
            if hasattr(n, "capital"):
                t = (n.value, n.weight, n.price, n.notional_value, n.capital, float(n.bankrupt))
            else:
                t = (n.value, n.weight, n.price, n.notional_value, n.position)
            out[n.full_name] = tuple(float(x).hex() for x in t)
        return out

    def prefix_record(self):
        """rows strictly before the current date must never change again (append-only)."""
        i = self.ti + 1
        rec = {}
        for n in self.root.members:
            rec[n.full_name] = n.data.to_numpy(dtype=float, na_value=float("nan"))[:i].tobytes()
        self.prefix_digests.append((i, rec))

    def prefix_check(self):
        for i, rec in self.prefix_digests:
            for n in self.root.members:
                b = rec.get(n.full_name)
                if b is None:
                    continue
                now = n.data.to_numpy(dtype=float, na_value=float("nan"))[:i].tobytes()
                if now != b:
                    self.violation("append_only", "%s rows before date #%d changed after the clock moved on" % (n.full_name, i))
                    return

    # ------------------------------------------------------------------ ops
    def flush(self, what="flush"):
        self.guarded(lambda: self.root.update(self.root.now), what)
        self.in_batch = False

    def pick_strat(self, o, key="n"):
        return self.strats[o[key] % len(self.strats)]

    def pick_child(self, sspec, o):
        c = trees.candidates(sspec, self.feed.tickers)
        return c[o["c"] % len(c)]

    def tradable(self, name):
        p = self.feed.price(self.model.t, name)
        return p == p and p > 0

    def run_ops(self):
        for o in self.plan["ops"]:
            try:
                # (reads performed by the operation itself may refresh the tree: classify what they raise like any other update)
                self.guarded(lambda: self.step(o), "op " + o["op"])
            except Stop as s:
                self.stop_reason = s.why
                return
            self.nops_done += 1

    def step(self, o):
        kind = o["op"]
        m = self.model
        root = self.root
        bigram = (self.last_op, kind, self.in_batch)
        self.bigrams.add(hash(bigram) & 0xFFFFFFFF)
        if kind == "tick":
            if self.ti + 1 >= len(self.dates):
                return
            if self.in_batch or self.cfg.get("flush") == "lazy":
                self.flush("pre-tick flush")  # D2: a date is closed by a refresh before the clock moves (as Backtest.run does)
            # ill-formed next date?  (open position meets NaN / non-positive price) -> stop before it
            nt = m.t + 1
            for s in m.secs() if self.cfg.get("ill") != "nan_open" else ():
                if not isz(s.pos):
                    p = self.feed.price(nt, s.name)
                    if not (p == p and p >= 0):
                        raise Stop("next_tick_bad_price")
                    if p == 0:
                        self.fire("held_at_zero_price")
                    if s.cls in ("CouponPayingSecurity", "CouponPayingHedgeSecurity") and self.cfg.get("ill") != "nan_coupon":
                        c = self.feed.get("coupons", nt, s.name)
                        if c != c:
                            raise Stop("next_tick_nan_coupon")
            if "C08" in self.judge:
                self.prefix_record()
            self.ti += 1
            d = self.dates[self.ti]
            self.guarded(lambda: root.update(d), "tick")
            self.last_op = "tick"
            self.observe()
            return
        if kind == "dup":
            self.fire("dup_tick")
            self.flush("dup")
            if "C08" in self.judge:
                pa = self.public_scalars(root)
                a = self.snapshot()
                for _ in range(o["k"]):
                    root.update(root.now)
                pb = self.public_scalars(root)
                b = self.snapshot()
                if a != b or repr(pa) != repr(pb):
                    self.violation("idempotence", "%d redundant root.update(now) changed observable state: %s" % (o["k"], self.snap_diff(a, b, pa, pb)))
            else:
                for _ in range(o["k"]):
                    root.update(root.now)
            self.last_op = "dup"
            self.observe()
            return
        if kind == "flush":
            self.flush()
            self.last_op = "flush"
            self.observe()
            return
        if kind == "read":
            self.do_read(o)
            self.last_op = "read"
            return
        p, sspec = self.pick_strat(o)
        node = self.rnode(p)
        done = False
        if self.plan.get("twin_flush") and self.in_batch and (kind in ("rebal", "close", "flatten") or (kind == "alloc" and o.get("mode") in ("close", "close_ulp", "close_near"))):
            # flush-schedule twins: while update=False changes are pending, an operation that sizes itself from current values
            # is preceded by a refresh in both schedules (whether an update=False change is seen by a later value read depends
            # on whether the stale flag happens to be pending - the caller's documented opt-out, not a property of the update
            # machinery).  Changes made with update=True are the machinery's own business: no refresh is supplied for those.
            self.flush("pre-read flush")
        if kind == "adjust":
            if o.get("root"):
                p, sspec = self.strats[0]
                node = root
            amt = o["frac"] * (self.cfg["capital"] or 1e5)
            if o.get("rebook"):
                if self.in_batch:
                    self.flush("pre-rebook flush")  # (the op values the book itself: both flush schedules start it from a delivered state)
                self.fire("contribution_rebooked_as_income")
                amt = abs(amt)
                node.adjust(amt, update=True, flow=True)
                if o.get("valued_between"):
                    self.guarded(lambda: self.root.value, "valuation between the bookings")
                node.adjust(-amt, update=True, flow=True)
                node.adjust(amt, update=True, flow=False)
                o = dict(o, upd=True)
            else:
                self.fire("flow_shock" if o["flow"] else "nonflow_adjust")
                node.adjust(amt, update=o["upd"], flow=o["flow"])
            done = True
        elif kind == "flatten":
            for c in node.children.values():
                if not hasattr(c, "capital") and not isz(c.position) and not self.tradable(c.name):
                    return
            self.guarded(node.flatten, "flatten")
            o = dict(o, upd=True)
            done = True
        else:
            cs = self.pick_child(sspec, o)
            cname = cs["name"]
            is_strat = cs["k"] == "S"
            if kind == "alloc":
                done = self.op_alloc(o, p, node, cs)
            elif kind == "spread":
                done = self.op_spread(o, p, node)
            elif kind == "rebal":
                done = self.op_rebal(o, p, node, cs)
            elif kind == "close":
                if cname not in node.children:
                    return
                c = node.children[cname]
                if is_strat:
                    if not self.subtree_tradable(c):
                        return
                elif not isz(c.position) and not self.tradable(cname):
                    return
                self.guarded(lambda: node.close(cname, update=o["upd"]), "close")
                done = True
            elif kind == "transact":
                done = self.op_transact(o, p, node, cs)
            elif kind == "roundtrip":
                done = self.op_roundtrip(o, p, node, cs)
            elif kind == "tspread":
                if not node.fixed_income:
                    return
                if self.in_batch:
                    self.flush("pre-spread flush")  # spread by the children's last computed weights (as op_spread)
                else:
                    self.guarded(lambda: self.root.value, "pre-spread refresh")
                if not self.subtree_tradable(node):
                    return
                q = o["qfrac"] * 1000.0
                self.guarded(lambda: node.transact(q, update=o["upd"]), "tspread")
                done = True
        if not done:
            return
        self.last_op = kind
        if o.get("upd", True) is False:
            self.in_batch = True
            self.fire("deferred")
            return
        if self.in_batch:
            # an update=True op inside an open batch ends it only if it really marked the
            # tree stale (then the next read delivers everything); an op that turned out to
            # be a no-op leaves the earlier update=False changes pending (D1)
            if not self.root.stale:
                return
            self.in_batch = False
        if "fresh" in o and "C08" in self.judge:
            self.freshness(o["fresh"])
        self.observe()

    def subtree_tradable(self, node):
        for mnode in node.members:
            if not hasattr(mnode, "capital") and not isz(mnode.position) and not self.tradable(mnode.name):
                return False
        return True

    # ---- individual ops ----------------------------------------------------------------
    def op_alloc(self, o, p, node, cs):
        m = self.model
        cname = cs["name"]
        if cs["k"] == "S":
            amt = o["frac"] * self.mvalue(p)
            if isz(amt):
                return False
            child = node.children[cname]
            if not self.subtree_tradable(child):
                return False
            # capital given to a sub-strategy is spread by its children's *last computed* weights: both flush
            # schedules refresh first (an un-refreshed spread is the caller's documented opt-out, not a defect)
            if self.in_batch:
                self.flush("pre-transfer flush")
            else:
                self.guarded(lambda: self.root.value, "pre-transfer refresh")
            self.fire("alloc_strat")
            self.guarded(lambda: node.allocate(amt, child=cname), "alloc_strat")
            return True
        price = self.feed.price(m.t, cname)
        mult = cs["mult"]
        mode = o["mode"]
        if not (price == price and price > 0):
            if not (o.get("ill") and "C05" in self.judge and (price != price or price == 0) and mode in ("frac", "units", "tiny")):
                return False
            # ill-formed on purpose: a trade at a missing / zero price must be refused with an error and no state change
            amt = (o.get("units", 3) * 10.0) if mode != "frac" else (o["frac"] * self.mvalue(p) or 100.0)
            self.fire("ill_alloc_bad_price")
            try:
                node.allocate(amt, child=cname)
            except Exception as e:  # noqa
                if "Cannot allocate capital" not in str(e):
                    self.c10("unexpected_exception", "ill alloc: %s" % str(e)[:100], {})
            return False
        exists = cname in node.children
        if mode == "frac":
            amt = o["frac"] * self.mvalue(p)
        elif mode == "zero":
            amt = 0.0
        elif mode == "tiny":
            amt = 0.3 * price * mult * (1 if o["frac"] > 0 else -1)
        elif mode == "units":
            amt = o["units"] * price * mult + o.get("eps", 0.0)
        elif mode in ("close", "close_ulp", "close_near"):
            if not exists or self.in_batch:
                return False
            v = node.children[cname].value
            amt = -v
            if mode == "close_ulp" and v != 0:
                amt = math.nextafter(amt, math.inf if o["frac"] > 0 else -math.inf)
            if mode == "close_near" and v != 0:
                amt = -v * (1.0 + o.get("rel", 1e-7))
                if amt == -v:
                    return False
                self.fire("alloc_near_close_out")
            if isz(amt):
                return False
        else:
            return False
        if not exists:
            self.fire("lazy_child")
        if o.get("direct") and exists:
            c = node.children[cname]
            self.guarded(lambda: c.allocate(amt, update=o["upd"]), "alloc_direct")
        else:
            o["upd"] = True
            self.guarded(lambda: node.allocate(amt, child=cname), "alloc")
        return True

    def op_spread(self, o, p, node):
        if not node.children:
            return False
        if self.in_batch:
            self.flush("pre-spread flush")  # spread uses the children's last computed weights
        else:
            self.guarded(lambda: self.root.value, "pre-spread refresh")
        if not self.subtree_tradable(node):
            return False
        amt = o["frac"] * self.mvalue(p)
        if isz(amt):
            return False
        self.fire("spread")
        self.guarded(lambda: node.allocate(amt, update=o["upd"]), "spread")
        return True

    def op_rebal(self, o, p, node, cs):
        cname = cs["name"]
        w = o["w"]
        if cs["k"] == "S":
            child = node.children[cname]
            if node.fixed_income:
                return False
            if not self.subtree_tradable(child):
                return False
        else:
            if cname in node.children:
                c = node.children[cname]
                if not self.tradable(cname) and (not isz(c.position) or not isz(w)):
                    return False
            elif not self.tradable(cname):
                return False
        b = o["base"]
        if b is None:
            base = float("nan")
        elif b == "value":
            base = self.mvalue(p)
        else:
            base = b * (self.mvalue(p) if not node.fixed_income else 1000.0)
        if node.fixed_income and b is None:
            pass
        if cname not in node.children and not isz(w):
            self.fire("lazy_child")
        self.guarded(lambda: node.rebalance(w, cname, base=base, update=o["upd"]), "rebalance")
        return True

    def op_transact(self, o, p, node, cs):
        if cs["k"] == "S":
            return False
        cname = cs["name"]
        price = self.feed.price(self.model.t, cname)
        if price != price and self.cfg.get("ill") == "transact_nan" and not self.in_batch:
            # ill-formed on purpose: a quantity transacted at a missing price must be refused, at the latest by the
            # update that closes the operation (transact itself has no price guard)
            self.fire("ill_transact_nan")
            taps.set_current(None)  # the ledger cannot book a NaN trade; this run ends here
            try:
                node.transact(10.0, child=cname)
                self.root.update(self.root.now)
                self.c10("ill_not_raised", "a quantity was transacted at a missing price and the update went through (value recorded: %r)" % (self.root._value,), {"ill": "transact_nan"})
            except Exception as e:  # noqa
                if "NaN" in str(e) or "nan" in str(e):
                    self.ill_ok = True
                else:
                    self.c10("unexpected_exception", "transact at NaN price: %s" % str(e)[:100], {})
            raise Stop("ill_transact_nan")
        if not (price == price and price >= 0):
            return False
        mult = cs["mult"]
        ref = abs(self.mvalue(p)) or (self.cfg["capital"] or 1e5)
        if node.fixed_income and price != 0:
            q = o["qfrac"] * 1000.0
        elif price == 0:
            # (transact has no price guard: a quantity can change hands at a zero price, e.g. a swap entered at PV 0)
            q = o["qfrac"] * ref / 100.0
            self.fire("trade_at_zero_price")
        else:
            q = o["qfrac"] * ref / (price * mult)
        if self.cfg["integer"]:
            q = float(round(q))
        if isz(q):
            return False
        custom = o.get("custom")
        if custom is not None and not self.feed.has("bidoffer"):
            if self.cfg.get("ill") == "custom_nobidoffer" and cname in node.children:
                self.fire("ill_custom_price")
                c = node.children[cname]
                pos0, cap0 = c.position, node.capital
                try:
                    c.transact(q, price=round(price * custom, 6))
                    self.c10("ill_not_raised", "custom-price trade without bid/offer data was accepted", {"ill": "custom_nobidoffer"})
                except ValueError:
                    if c.position != pos0 or node.capital != cap0:
                        self.c10("ill_state_changed", "refused custom-price trade changed state", {"ill": "custom_nobidoffer"})
                    self.ill_ok = True
                return False
            custom = None
        cp = None if custom is None else round(price * custom, 6)
        if cname not in node.children:
            self.fire("lazy_child")
        if o.get("direct") and cname in node.children:
            c = node.children[cname]
            if cp is not None:
                self.fire("custom_price")
            self.guarded(lambda: c.transact(q, update=o["upd"], price=cp), "transact_direct")
        else:
            o["upd"] = True
            self.guarded(lambda: node.transact(q, child=cname), "transact")
        return True

    def op_roundtrip(self, o, p, node, cs):
        """buy then sell (or the reverse) the same quantity of one security on one date, nothing refreshed in between"""
        if cs["k"] == "S":
            return False
        cname = cs["name"]
        price = self.feed.price(self.model.t, cname)
        if not (price == price and price > 0) or cname not in node.children:
            return False
        c = node.children[cname]
        ref = abs(self.mvalue(p)) or (self.cfg["capital"] or 1e5)
        q = o["qfrac"] * (1000.0 if node.fixed_income else ref / (price * cs["mult"]))
        if self.cfg["integer"]:
            q = float(round(q))
        if isz(q):
            return False
        has_bo = self.feed.has("bidoffer")
        p1 = round(price * o["c1"], 6) if (has_bo and o.get("c1")) else None
        p2 = round(price * o["c2"], 6) if (has_bo and o.get("c2")) else None
        self.fire("roundtrip")

        if o.get("obs_between"):
            # the two legs are separated by a full observation in the eager flush schedule and by nothing in the lazy one
            self.guarded(lambda: c.transact(q, update=True, price=p1), "roundtrip leg 1")
            self.observe()
            self.guarded(lambda: c.transact(-q * o.get("back", 1.0), update=o["upd"], price=p2), "roundtrip leg 2")
            return True

        def go():
            c.transact(q, update=False, price=p1)
            c.transact(-q * o.get("back", 1.0), update=o["upd"], price=p2)

        self.guarded(go, "roundtrip")
        return True

    def do_read(self, o):
        if self.in_batch:
            return
        p, sspec = self.pick_strat(o)
        node = self.rnode(p)
        if o["sec"]:
            secs = [c for c in node.children.values() if not hasattr(c, "capital")]
            if not secs:
                return
            node = secs[o["c"] % len(secs)]
            prop = PROPS_SEC[o["prop"] % len(PROPS_SEC)]
        else:
            prop = PROPS_STRAT[o["prop"] % len(PROPS_STRAT)]
        self.fire("forced_refresh")
        val = self.guarded(lambda: getattr(node, prop), "read " + prop)
        if "C08" in self.judge and hasattr(val, "index") and len(val.index):
            if val.index[-1] > self.root.now:
                self.violation("beyond_now", "%s.%s extends to %s beyond now=%s" % (node.full_name, prop, val.index[-1], self.root.now))

    def freshness(self, spec):
        """pending changes (stale flag set): reading a property directly must equal reading it after an explicit update."""
        root = self.root
        # (whether changes are pending is decided by the history - an operation has just completed - not by the
        # implementation's own stale flag: a change that failed to raise the flag is exactly what must be seen)
        flagged = bool(root.stale)
        self.fire("freshness_fork_stale" if flagged else "freshness_fork_not_flagged")
        # flagged: the read and the explicit update perform the same computation -> bit for bit.  Not flagged: the read returns
        # what an earlier update cached and the explicit update recomputes it - the same sums in another order (carry already
        # swept into cash, ...), equal up to float residue -> compared at the ledger's relative tolerance
        ftol = 0.0 if flagged else REL * (self.model.gross() + self.model.peak_ever + abs(self.cfg.get("capital") or 0.0) + 1.0)
        mv = self.model.value(self.model.root)
        if not root.fixed_income and not root.bankrupt and not (mv > REL * self.model.gross()):
            # the next update would declare bankruptcy and liquidate: that is a new event performed by the
            # update, not the delivery of pending changes (cash / position reads need no refresh by design)
            self.incon("freshness_pending_bankruptcy")
            return
        self.fire("freshness_fork")
        cur = taps.CUR
        taps.set_current(None)
        try:
            a = copy.deepcopy(root)
            b = copy.deepcopy(root)
            names = [n.full_name for n in root.members]
            # a short seeded sequence of reads: the first one meets the pending changes, the following ones must not be
            # left with stale numbers by it (a read that clears the stale flag without refreshing everything)
            import random as _random

            rr = _random.Random(spec[0] * 1000003 + spec[1] * 1009 + spec[3])
            seq = []
            for _ in range(3):
                tgt = names[rr.randrange(len(names))]
                is_strat = hasattr([n for n in root.members if n.full_name == tgt][0], "capital")
                props = PROPS_STRAT if is_strat else PROPS_SEC
                seq.append((tgt, props[rr.randrange(len(props))]))

            def read(tree, tgt, prop):
                node = [n for n in tree.members if n.full_name == tgt][0]
                try:
                    return getattr(node, prop), None
                except Exception as e:  # noqa
                    return None, type(e).__name__

            try:
                b.update(b.now)
                eb0 = None
            except Exception as e:  # noqa
                eb0 = type(e).__name__
            if eb0 is not None:
                # the pending state is one in which the update itself fails (zero base, ...): nothing to compare
                self.incon("freshness_update_raises")
                return
            for k, (tgt, prop) in enumerate(seq):
                va, ea = read(a, tgt, prop)
                vb, eb = read(b, tgt, prop)
                if eb is not None:
                    self.incon("freshness_update_raises")
                    return
                if ea is not None:
                    self.violation("freshness", "%s.%s read with pending changes raised %s although an explicit update succeeds" % (tgt, prop, ea), {"prop": prop})
                    return
                if hasattr(va, "to_numpy"):
                    xa = va.to_numpy(dtype=float, na_value=float("nan"))
                    xb = vb.to_numpy(dtype=float, na_value=float("nan"))
                    same = va.shape == vb.shape and list(va.index) == list(vb.index) and all((p == q) or (p != p and q != q) or abs(p - q) <= ftol for p, q in zip(xa.ravel(), xb.ravel()))
                else:
                    same = (va == vb) or (va != va and vb != vb) or (isinstance(va, (int, float)) and isinstance(vb, (int, float)) and abs(va - vb) <= ftol)
                if not same:
                    self.violation("freshness", "%s.%s read with pending changes (read #%d of %s) = %s, after an explicit update = %s" % (tgt, prop, k + 1, seq, _short(va), _short(vb)), {"prop": prop, "read_no": k + 1})
                    return
        finally:
            taps.set_current(cur)

    # ------------------------------------------------------------------ end of run
    def finish(self):
        if self.stop_reason is not None and self.stop_reason not in ("next_tick_bad_price", "next_tick_nan_coupon"):
            return
        try:
            if self.in_batch:
                self.flush("final flush")
            self.guarded(lambda: self.root.value, "final refresh")
        except Stop as s:
            self.stop_reason = s.why
            return
        self.model.close_date()
        self.compare_histories()
        if "C08" in self.judge:
            self.prefix_check()

    def series(self, node, name):
        s = getattr(node, name)
        return s.to_numpy(dtype=float, na_value=float("nan"))

    def compare_histories(self):
        """rows recorded for each date == end-of-date state; ledger reconciliation per date (C01/C02/C03/C07)."""
        m = self.model
        root = self.root
        T = self.ti  # index into self.dates of the current date; rows 0..T
        scale = m.gross() + m.peak_ever
        for r in m.root.rows.values():
            scale = max(scale, abs(r["value"]) + abs(r["cash"]))
        tol = REL * scale

        def cmp(path, col, impl, rows, key):
            if len(impl) != T + 1:
                self.violation("rows_" + col, "%s %s has %d recorded rows on %s, the %d dates up to now were expected" % (path, col, len(impl), self.dates[T].date(), T + 1), {"col": col, "length": True})
                return False
            for i in range(T + 1):
                t = i - 1
                e = rows[t][key] if t in rows else 0.0
                a = impl[i]
                if not (abs(a - e) <= tol) and not (a != a and e != e):
                    self.violation("rows_" + col, "%s %s[%s] recorded=%r end-of-date state=%r" % (path, col, self.dates[i].date(), a, e), {"col": col})
                    return False
            return True

        for node in root.members:
            p = taps.path_of(node)
            try:
                mn = m.node(p)
            except KeyError:
                mn = None
            rows = mn.rows if mn is not None else {}
            if hasattr(node, "capital"):
                cmp(p, "value", self.series(node, "values"), rows, "value")
                cmp(p, "cash", self.series(node, "cash"), rows, "cash")
                cmp(p, "notional_value", self.series(node, "notional_values"), rows, "notional")
                cmp(p, "fees", self.series(node, "fees"), rows, "fees")
                cmp(p, "flows", self.series(node, "flows"), rows, "flows")
                if self.feed.has("bidoffer") and mn is not None:
                    # a strategy's recorded bid/offer paid = what every security below it paid on that date
                    tot = {}
                    for sn in m.nodes(mn):
                        if sn.issec:
                            for t2, r2 in sn.rows.items():
                                tot[t2] = tot.get(t2, 0.0) + r2["bidoffer_paid"]
                    cmp(p, "strategy_bidoffer_paid", self.series(node, "bidoffers_paid"), {t2: {"x": v2} for t2, v2 in tot.items()}, "x")
            else:
                cmp(p, "value", self.series(node, "values"), rows, "value")
                cmp(p, "position", self.series(node, "positions"), rows, "position")
                cmp(p, "notional_value", self.series(node, "notional_values"), rows, "notional")
                cmp(p, "outlay", self.series(node, "outlays"), rows, "outlay")
                if self.feed.has("bidoffer"):
                    cmp(p, "bidoffer_paid", self.series(node, "bidoffers_paid"), rows, "bidoffer_paid")
                if type(node).__name__ in ("CouponPayingSecurity", "CouponPayingHedgeSecurity"):
                    cmp(p, "coupon", self.series(node, "coupons"), rows, "coupon")
                    cmp(p, "holding_cost", self.series(node, "holding_costs"), rows, "holding_cost")
        # ---- root index recurrence (C03) from the implementation's own recorded series
        pr = self.series(root, "prices")
        va = self.series(root, "values")
        fl = self.series(root, "flows")
        # starts at 100: on the pre-start row the base is the flows received there (initial capital)
        if root.fixed_income:
            e0 = None
        elif abs(fl[0]) > REL * scale * 1e3:
            e0 = 100.0 * va[0] / fl[0]
        else:
            e0 = 100.0 if abs(va[0]) < TOL and abs(fl[0]) < TOL else None
        if e0 is not None and not (abs(pr[0] - e0) <= 1e-9 * (1 + abs(e0))):
            self.violation("index_start", "index on the pre-start row is %r, expected %r" % (pr[0], e0))
        nt = self.series(root, "notional_values")
        for i in range(1, T + 1):
            if root.fixed_income:
                den = nt[i - 1] if abs(nt[i - 1]) >= TOL else nt[i]
                pnl = va[i] - va[i - 1] - fl[i]
                if abs(den) < REL * scale:
                    if abs(den) >= TOL or abs(pnl) > tol:
                        self.incon("fi_zero_notional")
                    exp = pr[i - 1] if abs(den) < TOL else None
                else:
                    exp = pr[i - 1] + 100.0 * pnl / den
                if exp is not None and not (abs(pr[i] - exp) <= 1e-9 * (abs(exp) + 100.0) + 100.0 * 1e-12 * scale / max(abs(den), 1e-300)):
                    self.violation("index_fi", "FI index[%s]=%r expected %r" % (self.dates[i].date(), pr[i], exp))
                    break
            else:
                bottom = va[i - 1] + fl[i]
                if abs(bottom) < REL * scale * 1e3:
                    self.incon("index_zero_base")
                    if abs(bottom) < TOL and abs(va[i]) < TOL and pr[i] != pr[i - 1]:
                        self.violation("index_recurrence", "index moved on a zero base")
                    break
                exp = pr[i - 1] * va[i] / bottom
                if not (abs(pr[i] - exp) <= 1e-9 * (abs(exp) + 1.0)):
                    self.violation("index_recurrence", "index[%s]=%r expected price[t-1]*V/(V[t-1]+flows)=%r" % (self.dates[i].date(), pr[i], exp))
                    break
        # flows recorded on the root == externally issued flow adjustments, nothing else
        mrows = m.root.rows
        for i in range(T + 1):
            e = mrows[i - 1]["ext_flow"]
            if not (abs(fl[i] - e) <= tol):
                self.violation("root_flows", "root flows[%s]=%r but externally issued flows sum to %r" % (self.dates[i].date(), fl[i], e))
                break
        # ---- value conservation, recorded form (C02)
        self.conservation(T, tol)
        # ---- cash ledger per strategy, recorded form (C07)
        self.cash_ledger(T, tol)

    def conservation(self, T, tol):
        m = self.model
        root = self.root
        va = self.series(root, "values")
        secs = [n for n in root.members if not hasattr(n, "capital")]
        strs = [n for n in root.members if hasattr(n, "capital")]
        pos = {n: self.series(n, "positions") for n in secs}
        fees = {n: self.series(n, "fees") for n in strs}
        bo = {n: (self.series(n, "bidoffers_paid") if self.feed.has("bidoffer") else None) for n in secs}
        for i in range(1, T + 1):
            t = i - 1
            pnl = 0.0
            for n in secs:
                q = pos[n][i - 1]
                if q != 0:
                    p0 = self.feed.price(t - 1, n.name)
                    p1 = self.feed.price(t, n.name)
                    pnl += q * (p1 - p0) * n.multiplier
            ext = 0.0
            carry = 0.0
            for sn in m.strats():
                r = sn.rows.get(t)
                if r:
                    ext += r["ext_flow"] + r["ext_nonflow"]
                    carry += r["carry"]
            costs = sum(fees[n][i] for n in strs)
            if self.feed.has("bidoffer"):
                costs += sum(bo[n][i] for n in secs)
            exp = va[i - 1] + pnl + ext + carry - costs
            if not (abs(va[i] - exp) <= tol) and va[i] == va[i] and exp == exp:
                self.violation("conservation", "root value[%s]=%r but previous value + P&L + flows + carry - recorded costs = %r (pnl=%r ext=%r carry=%r costs=%r)" % (self.dates[i].date(), va[i], exp, pnl, ext, carry, costs))
                return

    def cash_ledger(self, T, tol):
        m = self.model
        for node in self.root.members:
            if not hasattr(node, "capital"):
                continue
            p = taps.path_of(node)
            mn = m.node(p)
            cash = self.series(node, "cash")
            flows = self.series(node, "flows")
            fees = self.series(node, "fees")
            own = [c for c in node.children.values() if not hasattr(c, "capital")]
            subs = [c for c in node.children.values() if hasattr(c, "capital")]
            outl = [self.series(c, "outlays") for c in own]
            sflows = [self.series(c, "flows") for c in subs]
            for i in range(1, T + 1):
                t = i - 1
                r = mn.rows[t]
                given = 0.0
                for c, sf in zip(subs, sflows):
                    cm = mn.children[c.name]
                    given += sf[i] - cm.rows[t]["ext_flow"]
                exp = cash[i - 1] + flows[i] + r["ext_nonflow"] + r["carry"] - sum(o[i] for o in outl) - fees[i] - given
                if not (abs(cash[i] - exp) <= tol):
                    self.violation("cash_ledger", "%s cash[%s]=%r but ledger gives %r" % (p, self.dates[i].date(), cash[i], exp))
                    return


def _short(v):
    r = repr(v)
    return r if len(r) < 200 else r[:200] + "..."


def run_plan(bt, plan, judge):
    """Execute one plan.  Returns the TreeSim (violations in .viol)."""
    taps.install(bt)
    sim = TreeSim(bt, plan, judge)
    try:
        try:
            sim.setup()
            sim.run_ops()
        except Stop as s:
            sim.stop_reason = s.why
        sim.finish()
    finally:
        taps.set_current(None)
    return sim


def gen_worthless_sub_plan(rng, tier="quick"):
    """a leveraged root meets a price shock while one of its sub-strategies (possibly two levels down) is worth *exactly* zero
    although it holds positions: an unfunded, self-financing long/short pair in two tickers quoted identically"""
    ndates = rng.randint(4, 10)
    tickers = ["A", "B", "M", "N"]
    dates, style = feedmod.gen_dates(rng, ndates, rng.choice(["bday", "gaps"]))
    prices, fired = feedmod.gen_prices(rng, ndates, tickers, faults={})
    for row in prices:
        row[1] = row[0]  # B is quoted exactly like A
    lev = rng.choice([2.0, 3.0, 5.0])
    d = rng.randint(1, ndates - 1)
    outcome = rng.choice(["cross", "cross", "cross", "survive"])
    mag = (1.0 / lev) * (rng.uniform(1.2, 1.8) if outcome == "cross" else rng.uniform(0.3, 0.7))
    p0 = prices[0][2]
    for i in range(ndates):
        prices[i][2] = round(p0 * (1 + 0.001 * (i % 3)) * (1.0 if i < d else (1 - mag)), 4)
    pair = {"k": "S", "name": "ls", "cls": "Strategy", "fi": False, "how": "list", "children": [{"k": "X", "name": t, "cls": "Security", "mult": 1.0, "decl": rng.choice(["obj", "str"])} for t in ("A", "B")]}
    deep = rng.random() < 0.4
    holder = {"k": "S", "name": "mid", "cls": "Strategy", "fi": False, "how": "list", "children": [pair]} if deep else pair
    tree = {"k": "S", "name": "root", "cls": "Strategy", "fi": False, "how": "list", "children": [holder, {"k": "X", "name": "M", "cls": "Security", "mult": 1.0, "decl": "obj"}, {"k": "X", "name": "N", "cls": "Security", "mult": 1.0, "decl": "obj"}]}
    ls = 2 if deep else 1
    x = rng.choice([0.05, 0.2, 0.5])
    ops = [{"op": "tick"}, {"op": "alloc", "n": 0, "c": 1, "mode": "frac", "frac": lev, "direct": False, "upd": True},
           {"op": "transact", "n": ls, "c": 0, "qfrac": x, "upd": True, "direct": False, "custom": None},
           {"op": "transact", "n": ls, "c": 1, "qfrac": -x, "upd": True, "direct": False, "custom": None}]
    if rng.random() < 0.3:
        ops.append({"op": "alloc", "n": 0, "c": 2, "mode": "frac", "frac": 0.1, "direct": False, "upd": True})
    for _ in range(ndates - 1):
        if rng.random() < 0.3:
            ops.append({"op": "dup", "k": 1})
        if rng.random() < 0.3:
            ops.append({"op": "read", "n": rng.randrange(64), "c": rng.randrange(64), "sec": rng.random() < 0.5, "prop": rng.randrange(64)})
        ops.append({"op": "tick"})
    fired["price_shock_" + outcome] = 1
    fired["zero_value_sub_with_positions"] = 1
    cfg = {"integer": rng.random() < 0.5, "comm": {"kind": "zero"}, "capital": rng.choice([1e5, 1e6]), "fi": False, "obs_price": rng.random() < 0.5, "flush": "eager", "profile": "bankrupt"}
    return {"driver": "tree", "cfg": cfg, "tree": tree, "feed": {"dates": dates, "tickers": tickers, "prices": prices, "style": style}, "ops": ops, "fired": fired}


def gen_levered_carry_plan(rng, tier="quick"):
    """a leveraged market-value book in a coupon-paying security: sizeable carry (coupon less funding cost) is parked on the
    security every date and swept by the root on the next date's first update - the very update that may find equity below zero"""
    ndates = rng.randint(4, 10)
    tickers = ["M", "N"]
    dates, style = feedmod.gen_dates(rng, ndates, rng.choice(["bday", "gaps"]))
    prices, fired = feedmod.gen_prices(rng, ndates, tickers, faults={}, lo=50.0, hi=150.0)
    lev = rng.choice([2.0, 3.0, 5.0])
    d = rng.randint(1, ndates - 1)
    outcome = rng.choice(["cross", "cross", "near", "near", "survive"])
    brk = 1.0 / lev
    mag = brk * {"cross": rng.uniform(1.15, 1.6), "near": rng.uniform(0.98, 1.02), "survive": rng.uniform(0.3, 0.7)}[outcome]
    p0 = prices[0][0]
    for i in range(ndates):
        prices[i][0] = round(p0 * (1 + 0.001 * (i % 3)) * (1.0 if i < d else (1 - mag)), 4)
    coup = round(p0 * rng.choice([0.005, 0.01, 0.02]), 4)
    cost = round(p0 * rng.choice([0.0, 0.002, 0.03]), 4)
    fspec = {"dates": dates, "tickers": tickers, "prices": prices, "style": style,
             "coupons": [[coup if rng.random() < 0.8 else 0.0, 0.0] for _ in dates], "cost_long": [[cost, 0.0] for _ in dates], "cost_short": [[0.0, 0.0] for _ in dates]}
    tree = {"k": "S", "name": "root", "cls": "Strategy", "fi": False, "how": "list", "children": [
        {"k": "X", "name": "M", "cls": rng.choice(["CouponPayingSecurity", "CouponPayingHedgeSecurity"]), "mult": 1.0, "decl": "obj"},
        {"k": "X", "name": "N", "cls": "Security", "mult": 1.0, "decl": "obj"}]}
    ops = [{"op": "tick"}, {"op": "alloc", "n": 0, "c": 0, "mode": "frac", "frac": lev, "direct": False, "upd": True}]
    if rng.random() < 0.3:
        ops.append({"op": "alloc", "n": 0, "c": 1, "mode": "frac", "frac": 0.1, "direct": False, "upd": True})
    for _ in range(ndates - 1):
        if rng.random() < 0.3:
            ops.append({"op": "dup", "k": 1})
        if rng.random() < 0.3:
            ops.append({"op": "read", "n": rng.randrange(64), "c": rng.randrange(64), "sec": rng.random() < 0.5, "prop": rng.randrange(64)})
        ops.append({"op": "tick"})
    fired["price_shock_" + outcome] = 1
    fired["levered_carry_book"] = 1
    cfg = {"integer": rng.random() < 0.5, "comm": {"kind": "zero"}, "capital": rng.choice([1e5, 1e6]), "fi": False, "obs_price": rng.random() < 0.5, "flush": "eager", "profile": "bankrupt"}
    return {"driver": "tree", "cfg": cfg, "tree": tree, "feed": fspec, "ops": ops, "fired": fired}


def gen_ill_plan(rng, kind, tier="quick"):
    """an otherwise healthy plan with one enumerated ill-formed situation injected at a seeded instant"""
    plan = gen_plan(rng, "accounting", tier, knobs=dict(fi=0.0, faults={}, coupon=0.0))
    cfg = plan["cfg"]
    cfg["ill"] = kind
    tickers = plan["feed"]["tickers"]
    if kind == "nan_open":
        # flat tree holding every ticker; one ticker's price goes missing on a later date
        plan["tree"] = {"k": "S", "name": "root", "cls": "StrategyBase", "fi": False, "how": "list", "children": [{"k": "X", "name": t, "cls": "Security", "mult": 1.0, "decl": "obj"} for t in tickers]}
        nd = len(plan["feed"]["dates"])
        d = rng.randint(1, nd - 1)
        j = rng.randrange(len(tickers))
        plan["feed"]["prices"][d][j] = None
        pre = [{"op": "tick"}, {"op": "alloc", "n": 0, "c": j, "mode": "frac", "frac": rng.choice([0.2, 0.5, -0.3]), "direct": False, "upd": True}]
        plan["ops"] = pre + [o for o in plan["ops"] if o["op"] != "flatten"]
        plan["ops"] += [{"op": "tick"}] * nd
    elif kind == "custom_nobidoffer":
        plan["feed"]["bidoffer"] = None
        # any custom level is ill-formed without the bookkeeping switched on: above, below, at the quote, and exactly zero
        for o in plan["ops"]:
            if o["op"] == "transact":
                o["custom"] = rng.choice([1.01, 0.98, 1.0, 0.0])
                o["direct"] = True
        plan["ops"].append({"op": "tick"})
        plan["ops"].append({"op": "alloc", "n": 0, "c": 0, "mode": "frac", "frac": 0.2, "direct": False, "upd": True})
        plan["ops"].append({"op": "transact", "n": 0, "c": 0, "qfrac": 0.2, "upd": True, "direct": True, "custom": rng.choice([1.01, 0.0])})
    elif kind == "transact_nan":
        fi = rng.random() < 0.5
        cls = rng.choice(["CouponPayingSecurity", "FixedIncomeSecurity", "Security"]) if fi else "Security"
        plan["tree"] = {"k": "S", "name": "root", "cls": "FixedIncomeStrategy" if fi else "StrategyBase", "fi": fi, "how": "list", "children": [{"k": "X", "name": t, "cls": cls if i == 0 else "Security", "mult": 1.0, "decl": "obj"} for i, t in enumerate(tickers)]}
        cfg["fi"] = fi
        nd = len(plan["feed"]["dates"])
        d = rng.randint(0, nd - 1)
        plan["feed"]["prices"][d][0] = None
        if cls == "CouponPayingSecurity":
            plan["feed"]["coupons"] = [[0.0 for _ in tickers] for _ in range(nd)]
        plan["ops"] = [{"op": "tick"}] * (d + 1) + [{"op": "transact", "n": 0, "c": 0, "qfrac": 0.2, "upd": True, "direct": False, "custom": None}]
    elif kind == "nan_coupon":
        # a coupon-paying security whose coupon is missing on one date: holding it on that date is ill-formed, whether the
        # position is carried into the date or opened during it (flat at the date's first update)
        fi = rng.random() < 0.6
        ccls = rng.choice(["CouponPayingSecurity", "CouponPayingHedgeSecurity"])
        plan["tree"] = {"k": "S", "name": "root", "cls": "FixedIncomeStrategy" if fi else "StrategyBase", "fi": fi, "how": "list", "children": [{"k": "X", "name": t, "cls": ccls if i == 0 else "Security", "mult": 1.0, "decl": rng.choice(["obj", "lazy"]) if i == 0 else "obj"} for i, t in enumerate(tickers)]}
        cfg["fi"] = fi
        nd = len(plan["feed"]["dates"])
        for row in plan["feed"]["prices"]:
            row[0] = row[0] if (row[0] is not None and row[0] > 0) else 50.0
        d = rng.randint(1, nd - 1)
        plan["feed"]["coupons"] = [[rng.choice([0.0, 0.01, 0.05]) for _ in tickers] for _ in range(nd)]
        plan["feed"]["coupons"][d][0] = None
        plan["feed"]["cost_long"] = None
        plan["feed"]["cost_short"] = None
        trade = {"op": "transact", "n": 0, "c": 0, "qfrac": rng.choice([0.2, -0.2]), "upd": True, "direct": rng.random() < 0.5, "custom": None}
        if rng.random() < 0.5:
            plan["ops"] = [{"op": "tick"}] * (d + 1) + [trade]  # opened on the date itself
            plan["fired"]["ill_coupon_missing_on_opening_date"] = 1
        else:
            plan["ops"] = [{"op": "tick"}] * d + [trade, {"op": "tick"}]  # carried into the date
            plan["fired"]["ill_coupon_missing_on_carried_position"] = 1
    elif kind == "fi_child":
        sub = {"k": "S", "name": "fic", "cls": "FixedIncomeStrategy", "fi": True, "how": "list", "children": [{"k": "X", "name": tickers[0], "cls": "Security", "mult": 1.0, "decl": "obj"}]}
        plan["tree"] = {"k": "S", "name": "root", "cls": rng.choice(["StrategyBase", "Strategy"]), "fi": False, "how": "list", "children": [sub, {"k": "X", "name": tickers[-1], "cls": "Security", "mult": 1.0, "decl": "obj"}]}
    return plan
