"""Generic seeded search: pool of forked workers, known findings, minimisation,
fresh-process replay, evidence.  One `Spec` per property (sim/checks.py).

Exit codes: 0 held on everything explored (KNOWN-FINDING lines for listed
findings), 1 + `VIOLATION property=<id> replay=<path>`, 2 harness error.
"""
import collections
import faulthandler
import json
import multiprocessing
import os
import subprocess
import sys
import time
import traceback
from concurrent.futures import ProcessPoolExecutor, as_completed

from . import build, rng

ROOT = os.path.dirname(os.path.dirname(os.path.abspath(__file__)))
NCPU = int(os.environ.get("VERIF_JOBS", "0")) or min(16, os.cpu_count() or 1)

_BT = None
_BUILD = None
_SNAP = None


def _init_worker(snapdir, compiled):
    global _BT, _BUILD, _SNAP
    faulthandler.enable()
    _BT = build.load(snapdir, compiled=compiled)
    _BUILD = "cy" if compiled else "py"
    _SNAP = snapdir


def get_bt():
    return _BT


class Spec(object):
    """Override in sim/checks.py."""

    id = "C00"
    tiers = {"quick": dict(runs=1000, builds=("py",), wall=60), "thorough": dict(runs=20000, builds=("py", "cy"), wall=900)}
    level = "exploration"
    rule = ""
    assumptions = []
    real_stub = {
        "real": ["bt.core", "bt.algos", "bt.backtest", "pandas", "numpy", "ffn", "scipy", "sklearn"],
        "simulator_owned": ["price/bid-offer/coupon/signal feeds", "commission functions", "spy / chaos / oracle-wrapper algos", "the caller of update()", "global PRNG seeding", "PYTHONHASHSEED"],
        "absent": ["progress bars", "plotting"],
    }

    def gen(self, r, tier, i):
        raise NotImplementedError

    def run(self, bt, plan):
        """-> dict(viol=[{check,detail,flags}], fired={}, nontrivial=bool, states=set(), bigrams=set(), info={})"""
        raise NotImplementedError

    def owns(self, check):
        return True

    def simplifications(self, plan):
        return []


def load_known():
    p = os.path.join(ROOT, "known_findings.json")
    if not os.path.exists(p):
        return {"findings": [], "fixed": []}
    return json.load(open(p))


def match_known(known, prop, v):
    """A known finding matches a violation iff property, check name and every listed flag agree
    (and the optional detail stem occurs)."""
    for f in known.get("findings", []):
        if f["check"] != v["check"]:
            continue
        if prop not in f.get("seen_in", [f["property"]]) and f["property"] != prop:
            continue
        fl = v.get("flags", {})
        if any(fl.get(k) != val for k, val in f.get("flags", {}).items()):
            continue
        if f.get("detail_stem") and f["detail_stem"] not in v.get("detail", ""):
            continue
        return f
    return None


MIN_RUNS = 100


def _work(args):
    from . import checks

    prop, tier, master, idxs, wall_deadline = args
    spec = checks.SPECS[prop]
    bt = _BT
    out = dict(n=0, viol=[], fired=collections.Counter(), nontrivial=set(), states=set(), bigrams=set(), info=collections.Counter(), sample=None, sim_dates=0, steps=0, errors=[])
    for i in idxs:
        if time.time() > wall_deadline and i >= MIN_RUNS:
            # (the first MIN_RUNS indices are explored whatever the load of the machine: a batch is never empty)
            break
        r = rng.run_rng(master, prop, i)
        rng.pin_globals(rng.derive(master, prop, i, "g"))
        try:
            plan = spec.gen(r, tier, i)
            res = spec.run(bt, plan)
        except Exception:  # harness error: never a violation, never silently dropped
            out["errors"].append((i, traceback.format_exc()[-2000:]))
            continue
        out["n"] += 1
        if os.environ.get("VERIF_DIGESTS"):
            out.setdefault("digests", {})[i] = rng.digest([res.get("digest"), sorted((k, v) for k, v in res.get("fired", {}).items()), sorted((k, v) for k, v in res.get("info", {}).items()), [(v["check"], v["detail"][:80]) for v in res["viol"]], bool(res.get("nontrivial"))])
        for k, v in res.get("fired", {}).items():
            out["fired"][k] += v
        for k, v in res.get("info", {}).items():
            out["info"][k] += v
        out["states"] |= res.get("states", set())
        out["bigrams"] |= res.get("bigrams", set())
        out["sim_dates"] += res.get("dates", 0)
        out["steps"] += res.get("steps", 0)
        if res.get("nontrivial"):
            out["nontrivial"].add(rng.digest(plan))
        if out["sample"] is None and res.get("nontrivial"):
            out["sample"] = {"run_index": i, "build": _BUILD, "plan": _shrink_for_sample(plan)}
        for v in res["viol"]:
            v = dict(v)
            v["run_index"] = i
            v["build"] = _BUILD
            if len(out["viol"]) < 50:
                v["plan"] = plan
                out["viol"].append(v)
    return out


def _shrink_for_sample(plan):
    p = json.loads(json.dumps(plan, default=str))
    f = p.get("feed")
    if isinstance(f, dict):
        for k in ("prices", "bidoffer", "coupons", "cost_long", "cost_short"):
            if isinstance(f.get(k), list) and len(f[k]) > 3:
                f[k] = f[k][:3] + ["... %d more rows" % (len(f[k]) - 3)]
        if isinstance(f.get("dates"), list) and len(f["dates"]) > 4:
            f["dates"] = f["dates"][:4] + ["... %d more" % (len(f["dates"]) - 4)]
    if isinstance(p.get("ops"), list) and len(p["ops"]) > 12:
        p["ops"] = p["ops"][:12] + ["... %d more ops" % (len(p["ops"]) - 12)]
    return p


def _exec_single(args):
    from . import checks

    prop, plan = args
    spec = checks.SPECS[prop]
    res = spec.run(_BT, plan)
    return [dict(check=v["check"], detail=v["detail"], flags=v.get("flags", {})) for v in res["viol"]]


class Pools(object):
    def __init__(self, builds):
        self.snap = {}
        self.pool = {}
        ctx = multiprocessing.get_context("fork")
        for b in builds:
            compiled = b == "cy"
            d = build.snapshot(compiled=compiled)
            self.snap[b] = d
            self.pool[b] = ProcessPoolExecutor(max_workers=NCPU, mp_context=ctx, initializer=_init_worker, initargs=(d, compiled))

    def close(self):
        for p in self.pool.values():
            p.shutdown(wait=True, cancel_futures=True)


def _pred(check, flags=None):
    flags = flags or {}

    def p(v):
        return v["check"] == check and all(v.get("flags", {}).get(k) == val for k, val in flags.items())

    return p


def minimise(spec, pools, bld, plan, check, budget_s=90, flags=None):
    """ddmin over plan['ops'] then spec-specific simplifications; keeps plans whose run still
    reports a violation with the same check name."""
    pool = pools.pool[bld]
    t_end = time.time() + budget_s
    pred = _pred(check, flags)

    def fails(p):
        try:
            vs = pool.submit(_exec_single, (spec.id, p)).result(timeout=120)
        except Exception:
            return False
        return any(pred(v) for v in vs)

    def fails_many(cands):
        futs = [pool.submit(_exec_single, (spec.id, p)) for p in cands]
        res = []
        for f in futs:
            try:
                vs = f.result(timeout=120)
                res.append(any(pred(v) for v in vs))
            except Exception:
                res.append(False)
        return res

    cur = plan
    if isinstance(cur.get("ops"), list):
        ops = list(cur["ops"])
        n = 2
        while len(ops) >= 1 and time.time() < t_end:
            chunk = max(1, len(ops) // n)
            cands = []
            spans = []
            for s in range(0, len(ops), chunk):
                c = ops[:s] + ops[s + chunk:]
                cands.append(dict(cur, ops=c))
                spans.append(c)
            res = fails_many(cands)
            hit = [i for i, ok in enumerate(res) if ok]
            if hit:
                ops = spans[hit[0]]
                cur = dict(cur, ops=ops)
                n = max(n - 1, 2)
            else:
                if chunk == 1:
                    break
                n = min(len(ops), n * 2)
    changed = True
    while changed and time.time() < t_end:
        changed = False
        for cand in spec.simplifications(cur):
            if time.time() > t_end:
                break
            if fails(cand):
                cur = cand
                changed = True
                break
    return cur


def write_replay(spec, v, plan, master, tier):
    os.makedirs(os.path.join(ROOT, "replays"), exist_ok=True)
    name = "%s-%s-%d.json" % (spec.id, master, v["run_index"])
    path = os.path.join(ROOT, "replays", name)
    doc = {
        "property": spec.id,
        "master_seed": master,
        "tier": tier,
        "run_index": v["run_index"],
        "build": v["build"],
        "pythonhashseed": os.environ.get("PYTHONHASHSEED"),
        "expected": {"check": v["check"], "detail": v["detail"], "flags": v.get("flags", {})},
        "plan": plan,
    }
    with open(path, "w") as fh:
        json.dump(doc, fh, indent=1, default=str)
    return path


def replay_fresh(spec, path):
    """re-run the replay file in a fresh interpreter; True iff the same check fires again."""
    p = subprocess.run([sys.executable, "-u", os.path.join(ROOT, "sim", "cli.py"), spec.id, "--replay", path], stdout=subprocess.PIPE, stderr=subprocess.STDOUT, text=True, timeout=900)
    return p.returncode == 1 and "REPRODUCED" in p.stdout, p.stdout


def do_replay(spec, path):
    doc = json.load(open(path))
    bld = doc.get("build", "py")
    global _SNAP, _BUILD
    d = build.snapshot(compiled=(bld == "cy"))
    bt = build.load(d, compiled=(bld == "cy"))
    _SNAP, _BUILD = d, bld
    rng.pin_globals(rng.derive(doc.get("master_seed", 0), spec.id, doc.get("run_index", 0), "g"))
    res = spec.run(bt, doc["plan"])
    exp = doc["expected"]["check"]
    hits = [v for v in res["viol"] if v["check"] == exp]
    for v in res["viol"]:
        print("  violation: %s :: %s :: %s" % (v["check"], v["detail"][:400], v.get("flags", {})))
    if hits:
        print("REPRODUCED %s" % exp)
        print("VIOLATION property=%s replay=%s" % (spec.id, path))
        return 1
    print("NOT-REPRODUCED %s" % exp)
    return 0


def main_check(spec, tier, master):
    t0 = time.time()
    cfg = spec.tiers[tier]
    known = load_known()
    builds = cfg["builds"]
    pools = Pools(builds)
    t_build = time.time() - t0
    deadline = time.time() + cfg["wall"]
    runs = int(os.environ.get("VERIF_RUNS", cfg["runs"]))
    agg = dict(n=0, fired=collections.Counter(), nontrivial=set(), states=set(), bigrams=set(), info=collections.Counter(), samples=[], sim_dates=0, steps=0)
    viols = []
    errors = []
    per_build = collections.Counter()
    futs = {}
    chunk = max(1, min(200, runs // (NCPU * 4) or 1))
    # the same run indices are explored on every build
    for b in builds:
        for s in range(0, runs, chunk):
            idxs = list(range(s, min(runs, s + chunk)))
            f = pools.pool[b].submit(_work, (spec.id, tier, master, idxs, deadline))
            futs[f] = b
    try:
        for f in as_completed(futs, timeout=cfg["wall"] + 600):
            o = f.result()
            b = futs[f]
            per_build[b] += o["n"]
            agg["n"] += o["n"]
            agg["fired"].update(o["fired"])
            agg["info"].update(o["info"])
            agg["nontrivial"] |= o["nontrivial"]
            agg["states"] |= o["states"]
            agg["bigrams"] |= o["bigrams"]
            agg["sim_dates"] += o["sim_dates"]
            agg["steps"] += o["steps"]
            if o["sample"] is not None and len(agg["samples"]) < 3:
                agg["samples"].append(o["sample"])
            viols.extend(o["viol"])
            errors.extend(o["errors"])
            if "digests" in o:
                agg.setdefault("digests", {}).setdefault(b, {}).update({str(k): v for k, v in o["digests"].items()})
    except Exception:
        traceback.print_exc()
        print("HARNESS-ERROR: worker pool failed / timed out")
        pools.close()
        return 2
    t_search = time.time() - t0
    if agg["n"] == 0:
        for i, tb in errors[:3]:
            print("HARNESS-ERROR in run %d:\n%s" % (i, tb))
        print("HARNESS-ERROR: no run completed - nothing was explored, so nothing is claimed")
        pools.close()
        return 2
    # ---- classify
    own = [v for v in viols if spec.owns(v["check"])]
    foreign = [v for v in viols if not spec.owns(v["check"])]
    blocked = collections.Counter(v["check"] for v in foreign)
    knownhits = collections.Counter()
    fresh = []
    for v in sorted(own, key=lambda v: (v["run_index"], v["build"])):
        k = match_known(known, spec.id, v)
        if k is not None:
            knownhits[k["id"]] += 1
        else:
            fresh.append(v)
    rc = 0
    replay_path = None
    if errors:
        print("HARNESS-ERROR: %d runs raised inside the harness; first:\n%s" % (len(errors), errors[0][1]))
        rc = 2
    if fresh:
        # (a violation is reported even if other runs of the batch crashed the harness: it is the more useful answer)
        v = fresh[0]
        print("violation found: run %d build %s :: %s :: %s" % (v["run_index"], v["build"], v["check"], v["detail"][:500]))
        mplan = minimise(spec, pools, v["build"], v["plan"], v["check"])
        replay_path = write_replay(spec, v, mplan, master, tier)
        ok, outp = replay_fresh(spec, replay_path)
        if not ok:
            # fall back to the unminimised plan before giving up
            replay_path = write_replay(spec, v, v["plan"], master, tier)
            ok, outp = replay_fresh(spec, replay_path)
        if ok:
            print("VIOLATION property=%s replay=%s" % (spec.id, replay_path))
            rc = 1
        else:
            print("HARNESS-ERROR: violation did not reproduce in a fresh process\n" + outp[-1500:])
            rc = 2
    # ---- known findings listed for this property: replay their canonical witnesses
    for f in known.get("findings", []):
        if f["property"] != spec.id:
            continue
        wit = "no witness file"
        wp = os.path.join(ROOT, f.get("witness", ""))
        if f.get("witness") and os.path.exists(wp):
            doc = json.load(open(wp))
            b = doc.get("build", "py")
            b = b if b in pools.pool else builds[0]
            try:
                vs = pools.pool[b].submit(_exec_single, (spec.id, doc["plan"])).result(timeout=300)
                wit = "witness %s %s" % (f["witness"], "still reproduces" if any(_pred(f["check"], f.get("flags"))(v) for v in vs) else "NO LONGER reproduces")
            except Exception as e:  # noqa
                wit = "witness could not be run: %r" % (e,)
        print("KNOWN-FINDING: property=%s %s [%s; %s; matched %d run(s) of this batch]" % (spec.id, f["what"], f["id"], wit, knownhits.get(f["id"], 0)))
    pools.close()
    wall = time.time() - t0
    ev = {
        "property_id": spec.id,
        "tier": tier,
        "seed": master,
        "level": spec.level,
        "coverage": {
            "evaluations": agg["n"],
            "distinct_nontrivial": len(agg["nontrivial"]),
            "rule": spec.rule,
            "samples": agg["samples"] or [{"note": "no non-trivial run in this batch"}],
            "runs_per_build": dict(per_build),
            "runs_per_hour": int(agg["n"] / max(wall, 1e-9) * 3600),
            "simulated_dates": agg["sim_dates"],
            "simulated_steps": agg["steps"],
            "faults_fired": dict(agg["fired"]),
            "distinct_abstract_states": len(agg["states"]),
            "distinct_op_bigrams": len(agg["bigrams"]),
            "info": dict(agg["info"]),
            "blocked_by_other_property": dict(blocked),
            "known_finding_hits": dict(knownhits),
            "components": spec.real_stub,
            "build_s": round(t_build, 1),
            "search_s": round(t_search - t_build, 1),
            "jobs": NCPU,
        },
        "assumptions": list(spec.assumptions),
        "wall_s": round(wall, 2),
        "violations": len(fresh),
    }
    if os.environ.get("VERIF_DIGESTS"):
        with open(os.environ["VERIF_DIGESTS"], "w") as fh:
            json.dump(agg.get("digests", {}), fh, sort_keys=True)
        return rc  # determinism sweeps do not rewrite evidence
    if os.environ.get("BT_REPO") and os.path.realpath(os.environ["BT_REPO"]) != "/repo":
        # run against a scratch copy (mutant / seeded change): never overwrite the evidence of /repo
        print("(evidence not written: BT_REPO=%s)" % os.environ["BT_REPO"])
    elif rc != 2:
        os.makedirs(os.path.join(ROOT, "evidence"), exist_ok=True)
        with open(os.path.join(ROOT, "evidence", spec.id + ".json"), "w") as fh:
            json.dump(ev, fh, indent=1, default=str)
    print("%s %s: %d runs (%s) in %.1fs, %d distinct non-trivial, %d violations, %d known-finding hits, %d blocked; rc=%d" % (spec.id, tier, agg["n"], dict(per_build), wall, len(agg["nontrivial"]), len(fresh), sum(knownhits.values()), sum(blocked.values()), rc))
    return rc


def make_witness(spec, finding_id, master, tier="quick", max_runs=200000):
    """search until a violation matches the listed finding, minimise it keeping check+flags, write known/<id>.json"""
    known = load_known()
    f = [x for x in known["findings"] if x["id"] == finding_id][0]
    pools = Pools(("py",))
    pred = _pred(f["check"], f.get("flags"))
    found = None
    chunk = 50
    start = 0
    while found is None and start < max_runs:
        futs = [pools.pool["py"].submit(_work, (spec.id, tier, master, list(range(s, s + chunk)), time.time() + 600)) for s in range(start, start + chunk * NCPU, chunk)]
        for fu in futs:
            o = fu.result()
            for v in o["viol"]:
                if pred(v) and (found is None or v["run_index"] < found["run_index"]):
                    found = v
        start += chunk * NCPU
    if found is None:
        print("no run matches", finding_id)
        return 2
    mplan = minimise(spec, pools, "py", found["plan"], f["check"], flags=f.get("flags"), budget_s=120)
    vs = pools.pool["py"].submit(_exec_single, (spec.id, mplan)).result()
    hit = [v for v in vs if pred(v)][0]
    os.makedirs(os.path.join(ROOT, "known"), exist_ok=True)
    doc = {"property": spec.id, "finding": finding_id, "master_seed": master, "run_index": found["run_index"], "build": "py", "expected": {"check": hit["check"], "detail": hit["detail"], "flags": hit["flags"]}, "plan": mplan}
    with open(os.path.join(ROOT, f["witness"]), "w") as fh:
        json.dump(doc, fh, indent=1, default=str)
    print("wrote", f["witness"], "::", hit["detail"][:300])
    pools.close()
    return 0
