"""Snapshot /repo's *working tree* sources into a temp dir and import them.

/repo/bt contains a git-ignored, stale ``core.*.so`` that shadows ``core.py``:
an edited core.py would silently be ignored.  Every check therefore copies
``<repo>/bt/*.py`` (never the .so / .c) into a fresh temp directory outside
/repo and /verif, optionally cythonizes core.py there (the *compiled* build),
and imports bt from the snapshot.  ``load()`` asserts that what got imported
really lives in the snapshot.
"""
import atexit
import glob
import os
import shutil
import subprocess
import sys
import tempfile

REPO = os.environ.get("BT_REPO", "/repo")
_TMPDIRS = []


def _cleanup():
    for d in _TMPDIRS:
        shutil.rmtree(d, ignore_errors=True)


atexit.register(_cleanup)


class HarnessError(Exception):
    pass


def snapshot(compiled=False):
    """Return path of a fresh snapshot dir containing package ``bt``."""
    src = os.path.join(REPO, "bt")
    if not os.path.isdir(src):
        raise HarnessError("no bt package at %s" % src)
    d = tempfile.mkdtemp(prefix="btsnap_")
    _TMPDIRS.append(d)
    os.mkdir(os.path.join(d, "bt"))
    n = 0
    for f in glob.glob(os.path.join(src, "*.py")):
        shutil.copy2(f, os.path.join(d, "bt", os.path.basename(f)))
        n += 1
    if n < 4:
        raise HarnessError("incomplete bt package at %s" % src)
    if compiled:
        setup = (
            "from setuptools import setup\n"
            "from Cython.Build import cythonize\n"
            "setup(name='btsnap', ext_modules=cythonize('bt/core.py', quiet=True,"
            " compiler_directives={'language_level': '3'}), script_args=['-q', 'build_ext', '--inplace'])\n"
        )
        with open(os.path.join(d, "_build.py"), "w") as fh:
            fh.write(setup)
        env = dict(os.environ)
        env["CFLAGS"] = "-O1 -g0 -w"
        p = subprocess.run([sys.executable, "_build.py"], cwd=d, env=env, stdout=subprocess.PIPE, stderr=subprocess.STDOUT, text=True, timeout=600)
        so = glob.glob(os.path.join(d, "bt", "core*.so"))
        if p.returncode != 0 or not so:
            raise HarnessError("cythonize failed:\n" + p.stdout[-3000:])
        shutil.rmtree(os.path.join(d, "build"), ignore_errors=True)
    return d


def load(snapdir, compiled=False):
    """Import bt from the snapshot (call once per process)."""
    if "bt" in sys.modules:
        raise HarnessError("bt already imported in this process")
    sys.path.insert(0, snapdir)
    os.environ.setdefault("MPLBACKEND", "Agg")
    import warnings

    warnings.filterwarnings("ignore")
    import bt  # noqa

    f = os.path.realpath(bt.core.__file__)
    if not f.startswith(os.path.realpath(snapdir) + os.sep):
        raise HarnessError("bt.core imported from %s, not from snapshot %s" % (f, snapdir))
    if compiled != f.endswith(".so"):
        raise HarnessError("wrong build imported: %s (compiled=%s)" % (f, compiled))
    for m in ("bt.algos", "bt.backtest"):
        mf = os.path.realpath(sys.modules[m].__file__)
        if not mf.startswith(os.path.realpath(snapdir) + os.sep):
            raise HarnessError("%s imported from %s" % (m, mf))
    return bt
