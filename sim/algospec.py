"""Algo descriptors (plain data) -> real algo objects, plus the simulator-owned
spy / chaos / oracle-wrapper algos."""
import copy


def offset(pd, d):
    if d is None:
        return None
    return pd.DateOffset(**d)


class SimAlgo(object):
    """base for simulator-owned algos: deep copies (Backtest copies the template, setup copies
    sub-strategies into paper copies) share the sim and the spec."""

    def __init__(self, sim, spec):
        self.sim = sim
        self.spec = spec

    def __deepcopy__(self, memo):
        c = copy.copy(self)
        memo[id(self)] = c
        return c

    @property
    def name(self):
        return self.__class__.__name__

    def live(self, target):
        return target.root is self.sim.root


class Spy(SimAlgo):
    """records (id, strategy, date index, live|paper); return value comes from the plan,
    indexed by date (stateless, hence identical in live and paper copies)."""

    def __call__(self, target):
        sim = self.sim
        sp = self.spec
        # (a strategy created in the middle of a run has not been updated yet: its own clock still reads 0)
        t = sim.tindex(target.now if not (isinstance(target.now, int) and target.now == 0) else target.root.now)
        ret = sp.get("ret")
        r = True if ret is None else bool(ret[t % len(ret)])
        sim.spy_log.append((sp["id"], target.full_name, t, self.live(target), r, sim.seq))
        hook = sim.spy_hook
        if hook is not None:
            hook(self, target, t)
        return r


class RunAlwaysSpy(Spy):
    run_always = True


class SwitchedOffSpy(Spy):
    """carries the marker attribute, switched off: an unmarked algo like any other"""

    run_always = False


class Chaos(SimAlgo):
    """legal user actions that perturb the schedule from inside Backtest.run: redundant
    root.update(now), refreshing reads, full observations, external flows."""

    def __call__(self, target):
        sim = self.sim
        if not self.live(target):
            return True
        t = sim.tindex(target.now)
        acts = self.spec["acts"]
        a = acts[t % len(acts)]
        if a is None:
            return True
        kind = a[0]
        if kind == "dup":
            sim.fire("dup_tick")
            for _ in range(a[1]):
                target.root.update(target.root.now)
        elif kind == "read":
            sim.fire("forced_refresh")
            ms = target.root.members
            n = ms[a[1] % len(ms)]
            props = ("value", "weight", "price", "notional_value", "prices", "values")
            getattr(n, props[a[2] % len(props)])
        elif kind == "observe":
            sim.fire("mid_run_observation")
            sim.observe()
        elif kind == "flow":
            sim.fire("flow_shock")
            target.adjust(a[1])
        elif kind == "nonflow":
            sim.fire("nonflow_adjust")
            target.adjust(a[1], flow=False)
        elif kind == "flow_deferred":
            sim.fire("flow_shock_update_false")
            target.adjust(a[1], update=False)
            sim.in_batch = True  # D1: nothing is observed until some root.update delivers the change
        elif kind == "nonflow_deferred":
            sim.fire("nonflow_adjust_update_false")
            target.adjust(a[1], update=False, flow=False)
            sim.in_batch = True
        return True


class Probe(SimAlgo):
    """calls the wrapped scheduler (k times on the same date), records the booleans, always lets the stack go on"""

    def __init__(self, sim, spec, inner):
        SimAlgo.__init__(self, sim, spec)
        self.inner = inner

    def __deepcopy__(self, memo):
        c = copy.copy(self)
        c.inner = copy.deepcopy(self.inner, memo)
        memo[id(self)] = c
        return c

    def __call__(self, target):
        sim = self.sim
        t = sim.tindex(target.now)
        res = [bool(self.inner(target)) for _ in range(self.spec.get("calls", 1))]
        sim.probe_log.append((self.spec["id"], t, self.live(target), res, target.full_name))
        return True


class SetTemp(SimAlgo):
    """user algo that sets temp entries (e.g. temp['cash'] for Rebalance), optionally varying by date"""

    def __call__(self, target):
        t = self.sim.tindex(target.now)
        for k, v in self.spec["set"].items():
            if isinstance(v, list) and k != "selected":
                v = v[t % len(v)]
            if v == "__del__":
                target.temp.pop(k, None)
            elif v is not None:
                target.temp[k] = list(v) if isinstance(v, list) else (dict(v) if isinstance(v, dict) else v)
        return True


class PermGate(SimAlgo):
    """a user algo that keeps its state where the library tells users to keep it: in target.perm (never cleared between runs).
    It lets the stack through for the first `limit` invocations of that strategy instance only."""

    def __call__(self, target):
        n = target.perm.get("gate_calls", 0) + 1
        target.perm["gate_calls"] = n
        return n <= self.spec["limit"]


class Spawn(SimAlgo):
    """a parent algo that grows the tree while it runs (the pattern of the library's pairs-trading example): on one date it
    creates a sub-strategy under its target with parent= and setup_from_parent(); that child exists when the parent's stack
    ends, so the same run must run it"""

    def __call__(self, target):
        sim = self.sim
        if not self.live(target) or sim.tindex(target.now) != self.spec["t"]:
            return True
        bt = sim.bt
        child = bt.core.Strategy(self.spec["name"], algos=[build(bt, x, sim) for x in self.spec["stack"]], parent=target)
        if self.spec.get("own_bidoffer"):
            # the new sub-strategy is set up with data of its own, overriding what its parent was given (documented use of
            # setup_from_parent's keyword arguments) - its own, not its parent's from now on
            child.setup_from_parent(bidoffer=target.get_data("bidoffer") * float(self.spec["own_bidoffer"]))
        else:
            child.setup_from_parent()
        sim.fire("child_strategy_created_mid_run")
        return True


class HedgeRisksOf(SimAlgo):
    """HedgeRisks(measures, strategy=<a sibling strategy of the target>): the library algo, built with the live sibling node (a
    paper copy has no sibling: there it hedges the target alone)"""

    def __call__(self, target):
        sp = self.spec
        other = target.parent.children[sp["book"]] if self.live(target) and target.parent is not target else None
        return self.sim.bt.algos.HedgeRisks(sp["measures"], pseudo=sp.get("pseudo", False), strategy=other)(target)


class Wrap(SimAlgo):
    """oracle wrapper: snapshots inputs, calls the wrapped stock algo, hands both to a monitor"""

    def __init__(self, sim, spec, inner):
        SimAlgo.__init__(self, sim, spec)
        self.inner = inner
        if getattr(inner, "run_always", False):
            self.run_always = True

    def __deepcopy__(self, memo):
        c = copy.copy(self)
        c.inner = copy.deepcopy(self.inner, memo)
        memo[id(self)] = c
        return c

    def __call__(self, target):
        sim = self.sim
        mon = sim.wrap_monitor
        if mon is None or not self.live(target):
            return self.inner(target)
        ctx = mon.pre(self, target)
        r = self.inner(target)
        mon.post(self, target, r, ctx)
        return r


def build(bt, spec, sim):
    """spec: {"a": name, ...}"""
    import pandas as pd

    A = bt.algos
    a = spec["a"]
    kw = dict(spec.get("kw", {}))
    if a == "Spy":
        if spec.get("run_always") == "off":
            return SwitchedOffSpy(sim, spec)
        return (RunAlwaysSpy if spec.get("run_always") else Spy)(sim, spec)
    if a == "Chaos":
        return Chaos(sim, spec)
    if a == "SetTemp":
        return SetTemp(sim, spec)
    if a == "PermGate":
        return PermGate(sim, spec)
    if a == "Spawn":
        return Spawn(sim, spec)
    if a == "HedgeRisksOf":
        return HedgeRisksOf(sim, spec)
    if a == "Probe":
        return Probe(sim, spec, build(bt, spec["inner"], sim))
    if a == "Wrap":
        return Wrap(sim, spec, build(bt, spec["inner"], sim))
    if a == "Or":
        return A.Or([build(bt, x, sim) for x in spec["algos"]])
    if a == "Not":
        return A.Not(build(bt, spec["algo"], sim))
    if a == "AlgoStack":
        return bt.core.AlgoStack(*[build(bt, x, sim) for x in spec["algos"]])
    if a == "Require":
        p = spec["pred"]
        preds = {"nonempty": lambda x: len(x) > 0, "empty": lambda x: len(x) == 0, "true": lambda x: True, "false": lambda x: False}
        return A.Require(preds[p], spec["item"], if_none=spec.get("if_none", False))
    if a == "run_always":
        inner = build(bt, spec["algo"], sim)
        return A.run_always(inner)
    for k in ("lookback", "lag"):
        if k in kw:
            kw[k] = offset(pd, kw[k])
    if a in ("RunOnDate",):
        return A.RunOnDate(*spec["dates"])
    if a == "RunAfterDate":
        return A.RunAfterDate(spec["date"])
    if a == "WeighSpecified":
        return A.WeighSpecified(**spec["weights"])
    if a == "SelectTypes":
        inc = tuple(getattr(bt.core, x) for x in spec.get("include", ["Node"]))
        exc = tuple(getattr(bt.core, x) for x in spec.get("exclude", []))
        return A.SelectTypes(include_types=inc, exclude_types=exc)
    if a == "HedgeRisks":
        return A.HedgeRisks(spec["measures"], pseudo=spec.get("pseudo", False))
    if a == "bounds":
        pass
    if "bounds" in kw:
        kw["bounds"] = tuple(kw["bounds"])
    cls = getattr(A, a)
    args = list(spec.get("args", []))
    for i, x in enumerate(args):
        if isinstance(x, str) and x.startswith("@"):
            args[i] = sim.frames_by_name[x[1:]]
    return cls(*args, **kw)
