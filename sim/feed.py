"""The external input stream: date index (the simulated clock) and price /
bid-offer / coupon / holding-cost frames, with tick faults.

A feed is plain data (lists, None for NaN) so that it can live inside a JSON
plan.  ``Feed.frames()`` materialises pandas objects for bt.
"""
import datetime as dt
import math

NAN = float("nan")


def _f(x):
    return NAN if x is None else float(x)


def _j(x):
    return None if (x is None or (isinstance(x, float) and math.isnan(x))) else x


# ----------------------------------------------------------------------------------------
# clocks
# ----------------------------------------------------------------------------------------
def gen_dates(rng, n, style=None):
    """Strictly increasing timestamps (ISO strings).  Styles: bday, gaps (calendar
    gaps from a weekend to months), intraday (several stamps per day), boundary
    (starts shortly before a year / quarter / ISO-week-53 boundary), sparse."""
    style = style or rng.choice(["bday", "bday", "gaps", "intraday", "boundary", "sparse"])
    if style == "boundary":
        start = rng.choice([dt.datetime(2015, 12, 21), dt.datetime(2020, 12, 22), dt.datetime(2016, 2, 22), dt.datetime(2018, 12, 24), dt.datetime(2021, 3, 25), dt.datetime(2024, 12, 23), dt.datetime(2009, 12, 24), dt.datetime(2026, 12, 21)])
    else:
        start = dt.datetime(rng.choice([2009, 2012, 2016, 2019, 2020, 2023]), rng.randint(1, 12), rng.randint(1, 28))
    out = []
    cur = start
    while len(out) < n:
        if style == "intraday":
            k = rng.randint(1, 3)
            if cur.weekday() < 5:
                hrs = sorted(rng.sample(range(9, 17), k))
                for h in hrs:
                    out.append(cur.replace(hour=h, minute=rng.choice([0, 30])))
            cur = cur + dt.timedelta(days=1)
        else:
            if cur.weekday() < 5 or style == "sparse":
                out.append(cur)
            if style in ("bday", "boundary"):
                step = 1
            elif style == "gaps":
                step = rng.choice([1, 1, 1, 2, 3, 5, 9, 31, 70])
            else:
                step = rng.choice([1, 3, 7, 14, 30, 45, 100, 370, 122, 243, 487, 730])  # (up to years between two dates: 4, 8, 16, 24 months)
            cur = cur + dt.timedelta(days=step)
    out = out[:n]
    return [d.isoformat() for d in out], style


class Feed(object):
    """tickers x dates matrices; row i belongs to dates[i] (no synthetic row)."""

    KEYS = ("prices", "bidoffer", "coupons", "cost_long", "cost_short")

    def __init__(self, spec):
        self.spec = spec
        self.dates = list(spec["dates"])
        self.tickers = list(spec["tickers"])
        self.col = {t: j for j, t in enumerate(self.tickers)}
        self.m = {}
        for k in self.KEYS:
            v = spec.get(k)
            self.m[k] = None if v is None else [[_f(x) for x in row] for row in v]

    # model-side accessors (row index i into real dates; -1 = synthetic row -> NaN)
    def get(self, key, i, ticker):
        m = self.m[key]
        if m is None:
            return 0.0 if key != "prices" else NAN
        if i < 0:
            return NAN
        j = self.col.get(ticker)
        if j is None:
            return NAN if key == "prices" else 0.0
        return m[i][j]

    def price(self, i, t):
        return self.get("prices", i, t)

    def has(self, key):
        return self.m[key] is not None

    def frames(self, synthetic=False):
        """pandas frames; with synthetic=True a NaN row at dates[0]-1day is
        prepended (what Backtest._process_data does itself)."""
        import numpy as np
        import pandas as pd

        idx = pd.DatetimeIndex([pd.Timestamp(d) for d in self.dates])
        out = {}
        for k in self.KEYS:
            m = self.m[k]
            if m is None:
                continue
            df = pd.DataFrame(np.array(m, dtype=float).reshape(len(self.dates), len(self.tickers)), index=idx, columns=self.tickers)
            if synthetic:
                first = pd.DataFrame(np.nan, columns=df.columns, index=[idx[0] - pd.DateOffset(days=1)])
                df = pd.concat([first, df])
            out[k] = df
        return out


def gen_prices(rng, n_dates, tickers, faults=None, lo=2.0, hi=400.0):
    """Geometric random walks; `faults` maps kind -> probability per ticker."""
    faults = faults or {}
    rows = [[None] * len(tickers) for _ in range(n_dates)]
    fired = {}
    for j, _t in enumerate(tickers):
        p = math.exp(rng.uniform(math.log(lo), math.log(hi)))
        vol = rng.choice([0.0, 0.005, 0.02, 0.05, 0.15])
        for i in range(n_dates):
            if i:
                p = max(0.01, p * math.exp(rng.gauss(0, vol)))
            rows[i][j] = round(p, rng.choice([2, 4, 6]))
        if n_dates >= 3 and rng.random() < faults.get("late_listing", 0):
            k = rng.randint(1, max(1, n_dates // 2))
            for i in range(k):
                rows[i][j] = None
            fired["late_listing"] = fired.get("late_listing", 0) + 1
        if n_dates >= 3 and rng.random() < faults.get("delisting", 0):
            k = rng.randint(max(1, n_dates // 2), n_dates - 1)
            for i in range(k, n_dates):
                rows[i][j] = None
            fired["delisting"] = fired.get("delisting", 0) + 1
        if rng.random() < faults.get("nan_tick", 0):
            for _ in range(rng.randint(1, 2)):
                rows[rng.randrange(n_dates)][j] = None
            fired["nan_tick"] = fired.get("nan_tick", 0) + 1
        if n_dates >= 3 and rng.random() < faults.get("zero_run", 0):
            # quoted at exactly zero for a stretch (a par swap, a worthless right): a held position is then worth 0
            a = rng.randrange(0, n_dates - 1)
            b = min(n_dates, a + rng.randint(2, 4))
            for i in range(a, b):
                rows[i][j] = 0.0
            fired["zero_run"] = fired.get("zero_run", 0) + 1
        if rng.random() < faults.get("zero_tick", 0):
            rows[rng.randrange(n_dates)][j] = 0.0
            fired["zero_tick"] = fired.get("zero_tick", 0) + 1
        if rng.random() < faults.get("negative_tick", 0):
            rows[rng.randrange(n_dates)][j] = -round(rng.uniform(0.5, 20), 2)
            fired["negative_tick"] = fired.get("negative_tick", 0) + 1
    return rows, fired


def min_unit(prices, mults=None):
    m = None
    for row in prices:
        for j, x in enumerate(row):
            if x is not None and x > 0:
                u = x * (mults[j] if mults else 1.0)
                m = u if m is None else min(m, u)
    return m or 1.0
