"""Simulator-owned commission functions (the commission seam).

All are pure, non-decreasing in trade size and (by construction of the plans,
which bound the constants by the smallest unit price) smaller than the unit
price.  ``make(spec)`` returns a fresh pure function; ``Counting`` wraps one
and records every call together with whether it came from a booked trade
(inside SecurityBase.transact) or a speculative probe (sizing in allocate).
"""


def make(spec):
    k = spec["kind"]
    if k == "zero":
        return lambda q, p: 0.0
    if k == "fixed":
        c = float(spec["c"])
        return lambda q, p: c
    if k == "prop":
        r = float(spec["rate"])
        return lambda q, p: r * abs(q) * abs(p)
    if k == "sided":
        # proportional, with a levy on sales only (stamp duty / transaction tax style): depends on the *sign* of q
        rb, rs = float(spec["buy"]), float(spec["sell"])
        return lambda q, p: (rb if q > 0 else rs) * abs(q) * abs(p)
    if k == "pershare":
        per, mn = float(spec["per"]), float(spec["min"])
        return lambda q, p: max(mn, abs(q) * per)
    if k == "tiered":
        r1, r2, thr = float(spec["r1"]), float(spec["r2"]), float(spec["thr"])

        def f(q, p):
            n = abs(q) * abs(p)
            return r1 * min(n, thr) + r2 * max(n - thr, 0.0)

        return f
    raise ValueError(k)


def gen(rng, min_unit):
    """Draw a commission spec; constants stay below the smallest unit price."""
    k = rng.choice(["zero", "zero", "fixed", "prop", "prop", "pershare", "tiered", "sided"])
    if k == "zero":
        return {"kind": "zero"}
    if k == "fixed":
        return {"kind": "fixed", "c": round(rng.uniform(0.01, 0.4) * min_unit, 4)}
    if k == "prop":
        return {"kind": "prop", "rate": rng.choice([0.0001, 0.001, 0.0025, 0.01])}
    if k == "sided":
        return {"kind": "sided", "buy": rng.choice([0.0005, 0.001]), "sell": rng.choice([0.002, 0.006])}
    if k == "pershare":
        return {"kind": "pershare", "per": round(rng.uniform(0.001, 0.02) * min_unit, 6), "min": round(rng.uniform(0.01, 0.4) * min_unit, 4)}
    return {"kind": "tiered", "r1": rng.choice([0.002, 0.005]), "r2": rng.choice([0.0005, 0.001]), "thr": rng.choice([1e3, 1e4, 1e5])}


def proportional(spec):
    """size-proportional cost model (needed for scale-invariance twins)."""
    return spec["kind"] in ("zero", "prop", "sided")


class Counting(object):
    def __init__(self, spec, sim):
        self.fn = make(spec)
        self.sim = sim

    def __call__(self, q, p):
        v = self.fn(q, p)
        s = self.sim
        if s is not None:
            s.comm_calls += 1
            if s.depth_transact > 0:
                s.comm_booked += 1
        return v

    def __deepcopy__(self, memo):
        # paper copies share the function but must not disturb the counters
        return Counting.__new__(Counting)._init_copy(self)

    def _init_copy(self, other):
        self.fn = other.fn
        self.sim = None
        return self
