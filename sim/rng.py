"""One integer decides everything."""
import hashlib
import os
import random

DEFAULT_SEED = 20261004


def master_seed():
    v = os.environ.get("VERIF_SEED", "")
    try:
        return int(v)
    except ValueError:
        return DEFAULT_SEED


def derive(*parts):
    """Stable 63-bit integer from arbitrary parts (no hash() -> no PYTHONHASHSEED)."""
    h = hashlib.sha256(("|".join(str(p) for p in parts)).encode()).digest()
    return int.from_bytes(h[:8], "big") >> 1


def run_rng(master, prop, i):
    return random.Random(derive(master, prop, i))


def pin_globals(seed):
    """bt's random algos draw from the process-global generators."""
    import numpy as np

    random.seed(seed)
    np.random.seed(seed % (2**32))


def digest(obj):
    import json

    return hashlib.sha256(json.dumps(obj, sort_keys=True, default=str).encode()).hexdigest()[:16]
