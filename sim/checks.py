"""One Spec per property: which driver profile generates the runs, which oracles are judged."""
from . import drive_engine, drive_tree
from .runner import Spec

SPECS = {}


def register(cls):
    SPECS[cls.id] = cls()
    return cls


TREE_ASSUME = [
    "the reference ledger (sim/model.py) is a correct reading of the specification; it adopts the traded quantity chosen by SecurityBase.allocate (validated by C05) and the commission function's value",
    "comparisons with the model use a relative tolerance of 1e-9 of the gross book; quantities inside the (1e-16, 1e-9*scale) band around a threshold are inconclusive, counted, not judged",
    "plans are well-formed: trades only at finite positive prices, runs end before an open position meets a NaN / non-positive price",
]


class TreeSpec(Spec):
    profile = "accounting"
    judged = ()
    own_checks = ()
    rule = (
        "seeded plan = tree spec x feed (with tick faults) x op list (adjust/allocate/spread/rebalance/close/flatten/transact/tick/dup/read, update= flags); "
        "distinct = distinct plan digest; non-trivial = executed >= 1 trade and >= 2 ticks"
    )
    assumptions = TREE_ASSUME
    tiers = {"quick": dict(runs=8000, builds=("py",), wall=75), "thorough": dict(runs=150000, builds=("py", "cy"), wall=1500)}

    engine_every = 0  # every n-th run is a real Backtest.run of a stock-algo stack (engine driver)

    def gen(self, r, tier, i):
        if self.engine_every and i % self.engine_every == self.engine_every - 1:
            return drive_engine.gen_engine_plan(r, "mixed", tier)
        return drive_tree.gen_plan(r, self.profile_for(r, i), tier)

    def profile_for(self, r, i):
        return self.profile

    def execute(self, bt, plan):
        if plan["driver"] == "engine":
            return drive_engine.run_engine_plan(bt, plan, set(self.judged))
        return drive_tree.run_plan(bt, plan, set(self.judged))

    def run(self, bt, plan):
        sim = self.execute(bt, plan)
        info = {"stop_" + str(sim.stop_reason): 1, "driver_" + plan["driver"]: 1, "observations": sim.nobs, "ops_executed": sim.nops_done, "trades": sim.model.ntrades, "transfers": sim.model.ntransfers, "root_updates": sim.root_updates}
        for k, v in sim.inconclusive.items():
            info["inconclusive_" + k] = v
        return dict(
            viol=sim.viol,
            fired=sim.fired,
            nontrivial=(sim.model.ntrades >= 1 and sim.ticks >= 3),
            states=sim.states,
            bigrams=sim.bigrams,
            dates=sim.ticks,
            steps=sim.nops_done + len(getattr(sim, "spy_log", ())) + sim.root_updates,
            info=info,
        )

    def owns(self, check):
        return check in self.own_checks

    def simplifications(self, plan):
        out = []
        cfg = plan["cfg"]
        if plan["driver"] != "tree":
            return drive_engine.simplifications(plan)
        if cfg["comm"]["kind"] != "zero":
            out.append(dict(plan, cfg=dict(cfg, comm={"kind": "zero"})))
        f = plan["feed"]
        for k in ("bidoffer", "cost_long", "cost_short"):
            if f.get(k) is not None:
                f2 = dict(f)
                f2[k] = None
                out.append(dict(plan, feed=f2))
        if cfg.get("obs_price"):
            out.append(dict(plan, cfg=dict(cfg, obs_price=False)))
        # simpler numbers in ops
        for i, o in enumerate(plan["ops"]):
            for key, simple in (("frac", 0.5), ("w", 0.5), ("qfrac", 0.5), ("k", 1)):
                if key in o and o[key] != simple and abs(o[key]) != simple:
                    o2 = dict(o)
                    o2[key] = simple if o[key] > 0 else -simple
                    ops = list(plan["ops"])
                    ops[i] = o2
                    out.append(dict(plan, ops=ops))
            if "fresh" in o and False:
                pass
        return out


@register
class C01(TreeSpec):
    id = "C01"
    engine_every = 4
    judged = ("C01",)
    own_checks = ("value_identity", "sec_value", "sec_price", "weight", "weight_sum", "ledger_pos", "ledger_cash", "ledger_value", "notional", "rows_value", "rows_cash", "rows_position", "rows_notional_value")
    tiers = {"quick": dict(runs=6000, builds=("py", "cy"), wall=75), "thorough": dict(runs=150000, builds=("py", "cy"), wall=1500)}

    def profile_for(self, r, i):
        return "accounting" if i % 4 else "schedule"


@register
class C02(TreeSpec):
    id = "C02"
    engine_every = 4
    judged = ("C02",)
    own_checks = ("ledger_value", "ledger_cash", "ledger_pos", "conservation")

    def profile_for(self, r, i):
        return "accounting" if i % 5 else "fi"


@register
class C03(TreeSpec):
    id = "C03"
    engine_every = 4
    judged = ("C03",)
    own_checks = ("index_start", "index_recurrence", "root_flows", "rows_flows")


@register
class C07(TreeSpec):
    id = "C07"
    engine_every = 4
    judged = ("C07",)
    own_checks = ("rows_fees", "rows_flows", "rows_outlay", "rows_bidoffer_paid", "cash_ledger", "ledger_cash", "comm_calls")


@register
class C08(TreeSpec):
    id = "C08"
    judged = ("C08",)
    profile = "schedule"
    own_checks = ("idempotence", "freshness", "append_only", "beyond_now")


@register
class C05(TreeSpec):
    id = "C05"
    judged = ("C05",)
    own_checks = ("c05_sizing_exception", "c05_refuse", "c05_refuse_state", "c05_zero_amount", "c05_close", "c05_integral", "c05_overspend", "c05_underfill", "c05_cash", "c05_probe_booked")
    rule = TreeSpec.rule + "; every SecurityBase.allocate call of the run (direct, via rebalance/close/flatten/spread) is judged against the budget rule; non-trivial additionally needs >= 1 judged allocate"

    def profile_for(self, r, i):
        return "sizing" if i % 3 else "accounting"

    def run(self, bt, plan):
        res = TreeSpec.run(self, bt, plan)
        res["nontrivial"] = res["nontrivial"] and res["fired"].get("alloc_judged", 0) >= 1
        return res


@register
class C10(TreeSpec):
    id = "C10"
    judged = ("C10", "C05")
    own_checks = ("C10.unexpected_exception", "C10.sizing_exception", "C10.zero_base_missed", "C10.open_nan_missed", "C10.nonfinite", "C10.report_raises", "C10.ill_not_raised", "C10.ill_state_changed", "c05_refuse", "c05_refuse_state")
    tiers = {"quick": dict(runs=3600, builds=("py", "cy"), wall=75), "thorough": dict(runs=120000, builds=("py", "cy"), wall=1500)}
    rule = (
        "runs alternate between well-formed tree-driver plans, well-formed real Backtest.run()s of stock-algo stacks (then every report accessor is called and every recorded number must be finite) and plans with one enumerated ill-formed situation injected "
        "(NaN price on an open position, trade at NaN/zero price, custom-price trade without bid/offer data, fixed-income child under a market-value parent, duplicate tickers); an exception is legitimate iff the reference model shows one of the enumerated conditions at that instant, and then it is required; "
        "distinct = plan digest; non-trivial = >= 1 trade and >= 2 ticks, or an ill-formed situation that actually arose"
    )
    ILL = ("nan_open", "custom_nobidoffer", "fi_child")

    def gen(self, r, tier, i):
        k = i % 6
        if k in (0, 3):
            return drive_engine.gen_engine_plan(r, "mixed", tier)
        if k == 5:
            return drive_tree.gen_ill_plan(r, self.ILL[(i // 6) % len(self.ILL)], tier)
        return drive_tree.gen_plan(r, "sizing" if k == 4 else "accounting", tier)

    def run(self, bt, plan):
        res = TreeSpec.run(self, bt, plan)
        ill = plan["cfg"].get("ill")
        if ill:
            res["info"]["ill_" + ill] = 1
            f = res["fired"]
            if f.get("open_nan_raise") or f.get("ill_custom_price") or f.get("ill_fi_child"):
                res["nontrivial"] = True
                res["info"]["ill_arose_" + ill] = 1
        if plan["driver"] == "engine" and plan["cfg"].get("dupcheck", True):
            if not drive_engine.check_dup_columns(bt, plan):
                res["viol"].append({"check": "C10.ill_not_raised", "detail": "Backtest accepted duplicate column names", "flags": {"ill": "dup_cols"}})
            res["fired"]["ill_dup_columns"] = res["fired"].get("ill_dup_columns", 0) + 1
        return res
