"""One Spec per property: which driver profile generates the runs, which oracles are judged."""
from . import comm as commod
from . import drive_engine, drive_tree
from . import feed as feedmod
from . import rng
from .runner import Spec

SPECS = {}


def register(cls):
    SPECS[cls.id] = cls()
    return cls


TREE_ASSUME = [
    "the reference ledger (sim/model.py) is a correct reading of the specification; it adopts the traded quantity chosen by SecurityBase.allocate (validated by C05) and the commission function's value",
    "comparisons with the model use a relative tolerance of 1e-9 of the gross book; quantities inside the (1e-16, 1e-9*scale) band around a threshold are inconclusive, counted, not judged",
    "plans are well-formed: trades only at finite positive prices, runs end before an open position meets a NaN / non-positive price",
]


class TreeSpec(Spec):
    profile = "accounting"
    judged = ()
    own_checks = ()
    rule = (
        "seeded plan = tree spec x feed (with tick faults) x op list (adjust/allocate/spread/rebalance/close/flatten/transact/tick/dup/read, update= flags); "
        "distinct = distinct plan digest; non-trivial = executed >= 1 trade and >= 2 ticks"
    )
    assumptions = TREE_ASSUME
    tiers = {"quick": dict(runs=12000, builds=("py",), wall=75), "thorough": dict(runs=150000, builds=("py", "cy"), wall=1500)}

    engine_every = 0  # every n-th run is a real Backtest.run of a stock-algo stack (engine driver)

    def gen(self, r, tier, i):
        if self.engine_every and i % self.engine_every == self.engine_every - 1:
            return drive_engine.gen_engine_plan(r, "mixed", tier)
        return drive_tree.gen_plan(r, self.profile_for(r, i), tier)

    def profile_for(self, r, i):
        return self.profile

    def execute(self, bt, plan):
        if plan["driver"] == "engine":
            return drive_engine.run_engine_plan(bt, plan, set(self.judged))
        return drive_tree.run_plan(bt, plan, set(self.judged))

    def run(self, bt, plan):
        sim = self.execute(bt, plan)
        self._last_sim = sim
        info = {"stop_" + str(sim.stop_reason): 1, "driver_" + plan["driver"]: 1, "observations": sim.nobs, "ops_executed": sim.nops_done, "trades": sim.model.ntrades, "transfers": sim.model.ntransfers, "root_updates": sim.root_updates}
        for k, v in sim.inconclusive.items():
            info["inconclusive_" + k] = v
        import hashlib

        h = hashlib.sha256(repr(sim.log).encode())
        if sim.root is not None and getattr(sim.root, "data", None) is not None:
            for n in sim.root.members:
                h.update(n.full_name.encode())
                if getattr(n, "data", None) is not None:
                    h.update(n.data.to_numpy(dtype=float, na_value=float("nan")).tobytes())
        return dict(
            viol=sim.viol,
            digest=h.hexdigest()[:20],
            fired=sim.fired,
            nontrivial=(sim.model.ntrades >= 1 and sim.ticks >= 3),
            states=sim.states,
            bigrams=sim.bigrams,
            dates=sim.ticks,
            steps=sim.nops_done + len(getattr(sim, "spy_log", ())) + sim.root_updates,
            info=info,
        )

    def owns(self, check):
        return check in self.own_checks

    def simplifications(self, plan):
        out = []
        cfg = plan["cfg"]
        if plan["driver"] == "dyn":
            return []  # (the op list is shrunk by the generic ddmin; nothing else to simplify)
        if plan["driver"] != "tree":
            return drive_engine.simplifications(plan)
        if cfg["comm"]["kind"] != "zero":
            out.append(dict(plan, cfg=dict(cfg, comm={"kind": "zero"})))
        f = plan["feed"]
        for k in ("bidoffer", "cost_long", "cost_short"):
            if f.get(k) is not None:
                f2 = dict(f)
                f2[k] = None
                out.append(dict(plan, feed=f2))
        if cfg.get("obs_price"):
            out.append(dict(plan, cfg=dict(cfg, obs_price=False)))
        # simpler numbers in ops
        for i, o in enumerate(plan["ops"]):
            for key, simple in (("frac", 0.5), ("w", 0.5), ("qfrac", 0.5), ("k", 1)):
                if key in o and o[key] != simple and abs(o[key]) != simple:
                    o2 = dict(o)
                    o2[key] = simple if o[key] > 0 else -simple
                    ops = list(plan["ops"])
                    ops[i] = o2
                    out.append(dict(plan, ops=ops))
            if "fresh" in o and False:
                pass
        return out


@register
class C01(TreeSpec):
    id = "C01"
    engine_every = 4
    judged = ("C01",)
    own_checks = ("value_identity", "sec_value", "sec_price", "weight", "weight_sum", "ledger_pos", "ledger_cash", "ledger_value", "notional", "rows_value", "rows_cash", "rows_position", "rows_notional_value")
    tiers = {"quick": dict(runs=6000, builds=("py", "cy"), wall=75), "thorough": dict(runs=150000, builds=("py", "cy"), wall=1500)}

    def gen(self, r, tier, i):
        if i % 16 == 11:
            # a real Backtest driven through zero equity: after the liquidating update the date loop moves on without reading
            # anything (no algo runs any more) - the rows of the bankruptcy date must still be its end-of-date state
            return drive_engine.gen_bankrupt_plan(r, tier)
        return TreeSpec.gen(self, r, tier, i)

    def profile_for(self, r, i):
        if i % 8 == 5:
            return "bankrupt"  # leveraged histories: the liquidating update must leave a consistent tree too
        return "accounting" if i % 4 else "schedule"


@register
class C02(TreeSpec):
    id = "C02"
    engine_every = 4
    judged = ("C02",)
    # (the cost terms of the identity as the library itself records them - fees and bid/offer paid per date - are what a user
    # reconciles with: a cost reported but never paid breaks the day-by-day identity as read from the histories)
    own_checks = ("ledger_value", "ledger_cash", "ledger_pos", "conservation", "rows_fees", "rows_bidoffer_paid", "rows_strategy_bidoffer_paid")

    def profile_for(self, r, i):
        return "accounting" if i % 5 else "fi"


@register
class C03(TreeSpec):
    id = "C03"
    engine_every = 4
    judged = ("C03",)
    own_checks = ("index_start", "index_recurrence", "root_flows", "rows_flows", "scale_invariance")
    rule = TreeSpec.rule + "; every 5th run is a capital-scaling twin: fractional positions, size-proportional costs, the same plan with capital (and hence every flow and amount) x k must give the same index (1e-9 relative)"

    def gen(self, r, tier, i):
        if i % 10 == 7:
            # engine twin: repeated Rebalance to slowly changing targets (small corrections), fractional, proportional costs
            plan = drive_engine.gen_rebalance_plan(r, tier)
            plan["cfg"]["integer"] = False
            plan["cfg"]["comm"] = r.choice([None, {"kind": "prop", "rate": 0.001}])
            plan["cfg"]["obs_eod"] = False
            plan["tree"]["algos"] = [a for a in plan["tree"]["algos"] if a.get("a") != "Chaos"]
            plan["engine_scale_twin"] = r.choice([1.0, 10.0, 1e8])
            plan["seed"] = r.randrange(1 << 30)
            return plan
        if i % 5 != 2:
            return TreeSpec.gen(self, r, tier, i)
        plan = drive_tree.gen_plan(r, "accounting", tier, knobs=dict(fi=0.0, coupon=0.0))
        plan["cfg"]["integer"] = False
        if not commod.proportional(plan["cfg"]["comm"]):
            plan["cfg"]["comm"] = r.choice([{"kind": "zero"}, {"kind": "prop", "rate": 0.001}])
        ops = []
        for o in plan["ops"]:
            if o["op"] == "alloc" and o.get("mode") in ("tiny", "units", "close_ulp"):
                o = dict(o, mode="frac")
            ops.append(o)
        plan["ops"] = ops
        plan["twin_scale"] = r.choice([2.0, 4.0, 3.0, 0.1, 7.5, 100.0 / plan["cfg"]["capital"], 1000.0 / plan["cfg"]["capital"]])  # also down to a book of 100
        return plan

    def run(self, bt, plan):
        if plan.get("engine_scale_twin"):
            return self.run_engine_twin(bt, plan)
        res = TreeSpec.run(self, bt, plan)
        k = plan.get("twin_scale")
        if not k or res["viol"]:
            return res
        sim_a = self._last_sim
        if sim_a.stop_reason is not None:
            return res
        p2 = dict(plan, cfg=dict(plan["cfg"], capital=plan["cfg"]["capital"] * k))
        sim_b = drive_tree.run_plan(bt, p2, set())
        res["fired"]["capital_scale_twin"] = 1
        if sim_b.stop_reason is not None or sim_b.viol:
            res["info"]["inconclusive_twin_stopped"] = 1
            return res
        band = 1e-6 * (abs(plan["cfg"]["capital"]) + 1)
        if sim_a.model.run_min_equity is not None and sim_a.model.run_min_equity < band:
            res["info"]["inconclusive_twin_near_zero_equity"] = 1
            return res
        if sim_a.near_close or sim_b.near_close:
            # some allocate asked for -value up to rounding: whether the exact close-out shortcut or the budget search
            # (which also covers the fee) runs is decided by an ulp - threshold band, not judged
            res["info"]["inconclusive_twin_close_out_threshold"] = 1
            return res
        if max(sim_a.model.peak_ever, sim_b.model.peak_ever / k) > 1e3 * (abs(plan["cfg"]["capital"]) + 1):
            # capital was spread by weights computed on a float-residue base: astronomically large offsetting trades,
            # whose size is pure rounding noise (and not scale-invariant)
            res["info"]["inconclusive_twin_residue_amplification"] = 1
            return res
        def dust(sim, cap):
            # a trade of float-residue size (1e-15 units): it exists at one capital and not at another (the library's zero
            # threshold is absolute), and the weights it leaves behind then steer real capital
            return any(abs(tr[2]) > 0 and abs(tr[4]) < 1e-9 * (abs(cap) + 1e-300) and abs(tr[2] * (sim.feed.price(tr[0], tr[1][-1]) or 0.0)) < 1e-9 * (abs(cap) + 1e-300) for tr in sim.trade_log)

        if dust(sim_a, plan["cfg"]["capital"]) or dust(sim_b, plan["cfg"]["capital"] * k):
            res["info"]["inconclusive_twin_residue_sized_trade"] = 1
            return res
        a = sim_a.series(sim_a.root, "prices")
        b = sim_b.series(sim_b.root, "prices")
        if len(a) != len(b):
            return res
        for i in range(len(a)):
            if abs(a[i] - b[i]) > 1e-9 * (abs(a[i]) + 1):
                res["viol"].append({"check": "scale_invariance", "detail": "capital x %r: index on row %d is %r instead of %r" % (k, i, b[i], a[i]), "flags": {}})
                break
        return res


def _c03_engine_twin(self, bt, plan):
    import numpy as np

    # an allocation within float noise of minus the holding's value sits on the close-out shortcut's exact-equality threshold
    # (a target weight of 0 vs 1e-14 of residue): which side it falls on is rounding noise, and the two sides differ by the fee
    # funding - the same threshold band as in the tree-driver twins
    from . import taps as _taps

    _taps.install(bt)  # (before the class attribute is captured: the taps wrap it once per process)
    SB = bt.core.SecurityBase
    cur_alloc = SB.allocate
    near = [0]

    def watch(self, amount, update=True):
        try:
            v = self._position * self._price * self.multiplier
            d = abs(amount + v)
            if v == v and amount == amount and abs(v) > 0 and 0 < d < 1e-9 * (abs(amount) + abs(v)):
                near[0] += 1
        except Exception:  # noqa
            pass
        return cur_alloc(self, amount, update)

    SB.allocate = watch
    try:
        a, ea = drive_engine.run_light(bt, plan, seed=plan["seed"])
        p2 = dict(plan, cfg=dict(plan["cfg"], capital=plan["engine_scale_twin"]))
        b, eb = drive_engine.run_light(bt, p2, seed=plan["seed"])
    finally:
        SB.allocate = cur_alloc
    res = dict(viol=[], fired={"capital_scale_twin_engine": 1}, nontrivial=False, info={}, dates=len(plan["feed"]["dates"]) * 2, steps=2)
    if near[0]:
        res["info"]["inconclusive_twin_near_close_out_threshold"] = 1
        return res
    if ea is not None or eb is not None or a.root is None or b.root is None:
        res["info"]["inconclusive_twin_stopped"] = 1
        return res
    if a.root.bankrupt or b.root.bankrupt:
        res["info"]["inconclusive_twin_near_zero_equity"] = 1
        return res
    xa = a.root.prices.to_numpy(dtype=float)
    xb = b.root.prices.to_numpy(dtype=float)
    res["nontrivial"] = bool((np.abs(xa - 100.0) > 1e-9).any())
    # the sizing search stops within an absolute 1e-8 of the amount: on a book of 1 every position is off by ~1e-7 of itself,
    # and the index by that times the leverage (gross holdings / equity) of the strategy that holds it - a levered long/short
    # sub-strategy amplifies it; the band follows the largest leverage reached in the run
    lev = 1.0
    for n in a.root.members:
        if hasattr(n, "capital") and n.children:
            gross = sum(np.abs(c.values.to_numpy(dtype=float)) for c in n.children.values())
            eq = np.abs(n.values.to_numpy(dtype=float))
            held = gross > 0
            if held.any():
                if (eq[held] <= 0).any():
                    lev = float("inf")
                else:
                    lev = max(lev, float((gross[held] / eq[held]).max()))
    if not lev < 1e3:
        res["info"]["inconclusive_twin_near_zero_equity"] = 1
        return res
    bad = np.abs(xa - xb) > 1e-7 * lev * (np.abs(xa) + 1)
    if bad.any():
        i = int(np.argmax(bad))
        res["viol"].append({"check": "scale_invariance", "detail": "real Backtest, fractional positions, size-proportional costs: capital %r gives index[%d]=%r, capital %r gives %r" % (plan["cfg"]["capital"], i, xa[i], plan["engine_scale_twin"], xb[i]), "flags": {"engine": True}})
    return res


C03.run_engine_twin = _c03_engine_twin


@register
class C07(TreeSpec):
    id = "C07"
    engine_every = 4
    judged = ("C07",)

    def gen(self, r, tier, i):
        plan = TreeSpec.gen(self, r, tier, i)
        if r.random() < 0.12:
            # a venue that pays a rebate on sales: the commission function returns a negative number there, and that is the fee
            plan["cfg"]["comm"] = {"kind": "sided", "buy": r.choice([0.0005, 0.001]), "sell": -r.choice([0.0002, 0.0005])}
            plan.setdefault("fired", {})["commission_rebate_on_sales"] = 1
        return plan
    own_checks = ("rows_fees", "rows_flows", "rows_outlay", "rows_bidoffer_paid", "rows_strategy_bidoffer_paid", "cash_ledger", "ledger_cash", "comm_calls")


def _diff_tol(a, b, tol):
    import numpy as np

    for name in sorted(set(a) | set(b)):
        ca, cb = a.get(name), b.get(name)
        if ca is None or cb is None:
            present = ca if ca is not None else cb
            if any(np.any(np.nan_to_num(arr) != 0) for arr in present.values()):
                return "%s exists in one run only" % name
            continue
        for c in sorted(set(ca) | set(cb)):
            x, y = ca.get(c), cb.get(c)
            if x is None or y is None or x.shape != y.shape:
                return "%s.%s shape" % (name, c)
            bad = ~((np.abs(x - y) <= tol + 1e-12 * np.abs(y)) | (np.isnan(x) & np.isnan(y)))
            if bad.any():
                i = int(np.argmax(bad))
                return "%s.%s row %d: %r vs %r" % (name, c, i, x[i], y[i])
    return None


@register
class C08(TreeSpec):
    id = "C08"
    judged = ("C08",)
    profile = "schedule"
    own_checks = ("idempotence", "freshness", "append_only", "beyond_now", "schedule_equivalence")
    rule = TreeSpec.rule + "; every 3rd run is a flush-schedule twin: the same op history is executed once with a full observation (refreshing reads of every node) after every operation and once with none; the final history frames of every node must be byte-identical; after a quarter of the completed operations the tree is forked (two deep copies), one copy is read directly and the other after an explicit update - a seeded sequence of three property reads must agree bit for bit, whether or not the implementation has flagged the tree stale"

    # ---- trees that grow while they run: a sub-strategy created with parent= and setup_from_parent() in the middle of a date
    DYN_PROPS = ("universe", "prices", "values", "cash", "fees", "flows", "positions", "outlays", "notional_values")

    def gen_dyn(self, r, tier):
        n = r.randint(4, 10)
        fspec, fired = drive_engine.gen_feed(r, n, r.randint(2, 4), style=r.choice(["bday", "gaps"]), faults={}, spread_p=0.3)
        ops = [{"op": "tick"}]
        attach_at = r.randint(1, n - 2)
        ticks = 1
        nsub = 0
        while ticks < n:
            k = r.random()
            if k < 0.3:
                ops.append({"op": "tick"})
                ticks += 1
            elif k < 0.55:
                ops.append({"op": "read", "node": r.randrange(8), "prop": r.randrange(len(self.DYN_PROPS))})
            elif k < 0.75:
                ops.append({"op": "alloc", "node": r.randrange(8), "c": r.randrange(8), "frac": r.choice([0.1, 0.3, -0.1])})
            elif k < 0.85:
                ops.append({"op": "dup"})
            elif ticks >= attach_at and nsub < 2:
                under = r.randrange(8)
                ops.append({"op": "attach", "name": "late%d" % nsub, "under": under, "fund": r.choice([0.0, 0.2])})
                nsub += 1
                if r.random() < 0.6:
                    # right after the membership change: what does the parent hand out now?
                    ops.append({"op": "read", "strat": under, "prop": r.randrange(len(self.DYN_PROPS)) if r.random() < 0.5 else 0})
        fired["dynamic_attach_plan"] = 1
        cfg = {"integer": r.random() < 0.5, "capital": 1e6, "profile": "dynamic"}
        return {"driver": "dyn", "cfg": cfg, "feed": fspec, "ops": ops, "fired": fired, "start_row": r.randint(1, 3)}

    def run_dyn(self, bt, plan):
        import numpy as np
        import pandas as pd

        feed = feedmod.Feed(plan["feed"])
        data = feed.frames(synthetic=True)["prices"]
        add = {}
        if feed.has("bidoffer"):
            add["bidoffer"] = feed.frames(synthetic=True)["bidoffer"]
        root = bt.core.Strategy("root")
        root.use_integer_positions(plan["cfg"]["integer"])
        root.setup(data, **add)
        dates = list(data.index)
        viol, fired = [], dict(plan["fired"])
        strats = [root]
        ti = 0
        prefix = []

        def v(check, detail):
            if not viol:
                viol.append({"check": check, "detail": detail, "flags": {"dynamic_tree": True}})

        def scalars():
            return {m.full_name: tuple(float(x).hex() for x in (m.value, m.weight, m.price, m.notional_value)) for m in root.members}

        try:
            for o in plan["ops"]:
                k = o["op"]
                if k == "tick":
                    if ti + 1 >= len(dates):
                        continue
                    # rows dated before the date the clock is about to move to (also before the very first update: a tree may be
                    # started on any date of its data, and what lies before that date is not its to write)
                    first = ti == 0
                    step = plan.get("start_row", 1) if first else 1
                    if ti + step >= len(dates):
                        continue
                    prefix.append((ti + step, {m.full_name: m.data.to_numpy(dtype=float, na_value=float("nan"))[: ti + step].tobytes() for m in root.members}))
                    ti += step - 1
                    ti += 1
                    root.update(dates[ti])
                    if first:
                        root.adjust(plan["cfg"]["capital"])
                        root.update(dates[ti])
                elif ti == 0:
                    continue
                elif k == "read":
                    nodes = root.members
                    node = strats[o["strat"] % (len(strats) - 1 if len(strats) > 1 else 1)] if "strat" in o else nodes[o["node"] % len(nodes)]
                    prop = self.DYN_PROPS[o["prop"] % len(self.DYN_PROPS)]
                    if not hasattr(node, prop):
                        continue
                    val = getattr(node, prop)
                    fired["dyn_read"] = fired.get("dyn_read", 0) + 1
                    if hasattr(val, "index") and len(val.index) and val.index[-1] > root.now:
                        v("beyond_now", "%s.%s extends to %s beyond now=%s" % (node.full_name, prop, val.index[-1], root.now))
                elif k == "alloc":
                    st = strats[o["node"] % len(strats)]
                    t = feed.tickers[o["c"] % len(feed.tickers)]
                    p = feed.price(ti - 1, t)
                    if not (p == p and p > 0):
                        continue
                    amt = o["frac"] * plan["cfg"]["capital"] * (1.0 if st is root else 0.1)
                    if st.value <= 0 and st is not root:
                        continue
                    st.allocate(amt, child=t)
                    fired["dyn_alloc"] = fired.get("dyn_alloc", 0) + 1
                elif k == "dup":
                    root.update(root.now)
                    a = scalars()
                    root.update(root.now)
                    if a != scalars():
                        v("idempotence", "a redundant root.update(now) changed public scalars of a tree that grew while running")
                elif k == "attach":
                    par = strats[o["under"] % len(strats)]
                    _u = par.universe  # (the parent's data window for the date has been read before the tree grows)
                    sub = bt.core.Strategy(o["name"], parent=par)
                    sub.setup_from_parent()
                    root.update(root.now)  # (the new node's own clock starts with this update)
                    strats.append(sub)
                    fired["dynamic_attach"] = fired.get("dynamic_attach", 0) + 1
                    if o["fund"]:
                        par.allocate(o["fund"] * max(par.value, 0.0) * 0.5, child=o["name"])
                for i, rec in prefix:
                    for m in root.members:
                        b = rec.get(m.full_name)
                        if b is not None and m.data.to_numpy(dtype=float, na_value=float("nan"))[:i].tobytes() != b:
                            v("append_only", "%s rows before date #%d changed after the clock moved on (dynamic tree)" % (m.full_name, i))
        except ZeroDivisionError:
            fired["dyn_zero_base"] = 1
        except Exception as e:  # noqa
            if any(str(e).startswith(st) for st in drive_tree.SIZING_STEMS):
                viol.append({"check": "C10.sizing_exception", "detail": str(e)[:80], "flags": {}})
            else:
                viol.append({"check": "C10.unexpected_exception", "detail": "dynamic tree: %s: %s" % (type(e).__name__, str(e)[:160]), "flags": {"exc": type(e).__name__}})
        return dict(viol=viol, fired=fired, nontrivial=bool(fired.get("dynamic_attach") and fired.get("dyn_read", 0) >= 2), info={"driver_dyn": 1}, dates=ti, steps=len(plan["ops"]))

    def run(self, bt, plan):
        if plan["driver"] == "dyn":
            return self.run_dyn(bt, plan)
        res = TreeSpec.run(self, bt, plan)
        sim_a = self._last_sim
        if plan.get("twin_flush") and not res["viol"]:
            p2 = dict(plan, cfg=dict(plan["cfg"], flush="lazy"))
            sim_b = drive_tree.run_plan(bt, p2, set())
            res["fired"]["flush_schedule_twin"] = 1
            cap = abs(plan["cfg"]["capital"]) + 1
            if sim_a.stop_reason != sim_b.stop_reason or sim_a.stop_reason not in (None, "next_tick_bad_price", "next_tick_nan_coupon"):
                res["info"]["inconclusive_twin_stopped"] = 1
            elif max(sim_a.model.peak_ever, sim_b.model.peak_ever) > 1e3 * cap:
                res["info"]["inconclusive_twin_residue_amplification"] = 1
            elif sim_a.model.run_min_equity is not None and sim_a.model.run_min_equity < 1e-6 * cap and not plan["cfg"]["fi"]:
                # an extra update may legitimately observe a transient bankruptcy
                res["info"]["inconclusive_twin_near_zero_equity"] = 1
            else:
                ha = drive_engine.histories(sim_a.root)
                hb = drive_engine.histories(sim_b.root)
                d = _diff_tol(ha, hb, 1e-12 * cap)  # cell-wise, NaN == NaN; the two schedules differ in the last bits of long sums
                if d is not None:
                    res["viol"].append({"check": "schedule_equivalence", "detail": "observing every node after every operation vs never observing: %s" % d, "flags": {}})
        return res

    def gen(self, r, tier, i):
        if i % 12 == 5:
            return self.gen_dyn(r, tier)
        plan = TreeSpec.gen(self, r, tier, i)
        if i % 3 == 1 and plan["driver"] == "tree":
            plan["twin_flush"] = True
            plan["cfg"]["obs_price"] = False
        return plan


@register
class C05(TreeSpec):
    id = "C05"
    engine_every = 5  # every allocate reached through Rebalance & co. inside real Backtest runs is judged too
    judged = ("C05",)
    own_checks = ("c05_sizing_exception", "c05_refuse", "c05_refuse_state", "c05_refuse_spurious", "c05_zero_amount", "c05_close", "c05_integral", "c05_overspend", "c05_underfill", "c05_cash", "c05_probe_booked", "c05_position")
    rule = TreeSpec.rule + "; every SecurityBase.allocate call of the run (direct, via rebalance/close/flatten/spread) is judged against the budget rule; non-trivial additionally needs >= 1 judged allocate"

    def profile_for(self, r, i):
        return "sizing" if i % 3 else "accounting"

    def run(self, bt, plan):
        res = TreeSpec.run(self, bt, plan)
        res["nontrivial"] = res["nontrivial"] and res["fired"].get("alloc_judged", 0) >= 1
        return res


@register
class C10(TreeSpec):
    id = "C10"
    level = "fault_enumeration"
    judged = ("C10", "C05")
    own_checks = ("C10.unexpected_exception", "C10.sizing_exception", "C10.zero_base_missed", "C10.open_nan_missed", "C10.nonfinite", "C10.report_raises", "C10.ill_not_raised", "C10.ill_state_changed", "c05_refuse", "c05_refuse_state")
    tiers = {"quick": dict(runs=3600, builds=("py", "cy"), wall=75), "thorough": dict(runs=120000, builds=("py", "cy"), wall=1500)}
    rule = (
        "runs alternate between well-formed tree-driver plans, well-formed real Backtest.run()s of stock-algo stacks (then every report accessor is called and every recorded number must be finite) and plans with one enumerated ill-formed situation injected "
        "(NaN price on an open position, trade at NaN/zero price via allocate and via transact, custom-price trade without bid/offer data, fixed-income child under a market-value parent, duplicate tickers); an exception is legitimate iff the reference model shows one of the enumerated conditions at that instant, and then it is required; "
        "distinct = plan digest; non-trivial = >= 1 trade and >= 2 ticks, or an ill-formed situation that actually arose"
    )
    ILL = ("nan_open", "custom_nobidoffer", "fi_child", "transact_nan", "nan_coupon")

    def gen(self, r, tier, i):
        k = i % 6
        if k in (0, 3):
            plan = drive_engine.gen_engine_plan(r, "mixed", tier, risk_p=0.25 if k == 0 else 0.6)
            if k == 3:
                # a name listed late is quoted today yet has missing quotes inside the look-back window of the covariance-based
                # weighting algos (well-formed input: it is not held on those dates): the history requirement in front of them
                # is shortened so that such names are selected while their history is still shorter than the window
                short = r.choice([3, 4, 6])
                for _p, s in drive_engine.trees.strategies(plan["tree"]):
                    if any(a.get("a") == "WeighMeanVar" for a in s.get("algos", [])):
                        # (a mean-variance problem estimated from three to six rows is ill-posed: SLSQP gives up with "Positive
                        # directional derivative for linesearch" - 14 of 129 000 thorough runs; like a constant price series for
                        # the risk-based weighers this is not well-formed input, the history requirement stays as it was)
                        continue
                    for a in s.get("algos", []):
                        if a.get("a") == "SelectHasData" and (a.get("kw", {}).get("lookback") or {}).get("days") == 4000:
                            a["kw"]["min_count"] = min(a["kw"]["min_count"], short)
                            plan["fired"]["selected_with_history_shorter_than_window"] = 1
            return plan
        if k == 5:
            return drive_tree.gen_ill_plan(r, self.ILL[(i // 6) % len(self.ILL)], tier)
        return drive_tree.gen_plan(r, "sizing" if k == 4 else ("fi" if k == 2 else "accounting"), tier)

    def run(self, bt, plan):
        res = TreeSpec.run(self, bt, plan)
        ill = plan["cfg"].get("ill")
        if ill:
            res["info"]["ill_" + ill] = 1
            f = res["fired"]
            if f.get("open_nan_raise") or f.get("ill_custom_price") or f.get("ill_fi_child") or f.get("ill_transact_nan") or f.get("open_nan_coupon_raise"):
                res["nontrivial"] = True
                res["info"]["ill_arose_" + ill] = 1
        if plan["driver"] == "engine":
            used = set()
            for _p, s in drive_engine.trees.strategies(plan["tree"]):
                used |= {a.get("a") for a in s.get("algos", [])}
            for v in res["viol"]:
                if v["check"] == "C10.unexpected_exception":
                    v["flags"]["stack_uses_LimitWeights"] = "LimitWeights" in used
        if plan["driver"] == "engine" and plan["cfg"].get("dupcheck", True):
            if not drive_engine.check_dup_columns(bt, plan):
                res["viol"].append({"check": "C10.ill_not_raised", "detail": "Backtest accepted duplicate column names", "flags": {"ill": "dup_cols"}})
            res["fired"]["ill_dup_columns"] = res["fired"].get("ill_dup_columns", 0) + 1
        return res


# ============================================================================================
# twin-run checks (no reference model: two executions of the same code are compared bit for bit)
# ============================================================================================
import copy as _copy
import math as _math
import random as _random


def _corrupt_future(plan, cut, kind, seed):
    """every supplied value dated after feed row `cut` is perturbed; the index (the calendar) is unchanged"""
    r = _random.Random(seed)
    p = _copy.deepcopy(plan)
    f = p["feed"]
    n = len(f["dates"])

    def pert(x, k):
        if k == "scale":
            return None if x is None else round(x * r.uniform(0.3, 3.0), 6)
        if k == "redraw":
            return round(_math.exp(r.uniform(0, 6)), 4)
        if k == "nan":
            return None
        if k == "zero":
            return 0.0
        return x

    for key in ("prices", "bidoffer", "coupons", "cost_long", "cost_short"):
        m = f.get(key)
        if m is None:
            continue
        for i in range(cut + 1, n):
            for j in range(len(m[i])):
                kk = kind if key == "prices" else ("scale" if kind in ("nan", "zero") else kind)
                if kind == "mixed":
                    kk = r.choice(["scale", "redraw", "nan", "zero"]) if key == "prices" else "scale"
                m[i][j] = pert(m[i][j], kk)
    cutdate = f["dates"][cut]
    for _name, fr in (p.get("extra") or {}).items():
        if fr["kind"] == "unit_risk":
            for _m, tab in fr["measures"].items():
                for i in range(cut + 1, n):
                    tab["data"][i] = [pert(x, "scale") if x is not None else None for x in tab["data"][i]]
            continue
        if fr["kind"] == "blotter":
            for row in fr["rows"]:
                if row[0] > cutdate:
                    row[2] = pert(row[2], "scale")
                    row[3] = pert(row[3], "scale")
            continue
        if fr["kind"] == "table":
            # close / roll schedules: a line dated after the cut moves further into the future, its other fields are redrawn
            import datetime as _dtc

            dc = [fr["cols"].index(c) for c in fr.get("datecols", [])]
            for row in fr["data"]:
                if dc and row[dc[0]] > cutdate:
                    row[dc[0]] = (_dtc.datetime.fromisoformat(row[dc[0]]) + _dtc.timedelta(days=r.randint(1, 40))).isoformat()
                    if "factor" in fr["cols"]:
                        row[fr["cols"].index("factor")] = pert(row[fr["cols"].index("factor")], "scale")
            continue
        if fr["kind"] not in ("frame", "series"):
            continue
        rows = fr.get("rows") or f["dates"]
        for i, d in enumerate(rows):
            if d > cutdate:
                if fr["kind"] == "series":
                    fr["data"][i] = pert(fr["data"][i], "scale")
                elif fr.get("dtype") == "bool":
                    fr["data"][i] = [not x for x in fr["data"][i]]
                else:
                    fr["data"][i] = [pert(x, "scale" if kind in ("nan", "zero") else ("scale" if kind == "mixed" else kind)) if x is not None else (0.3 if r.random() < 0.3 else None) for x in fr["data"][i]]
    return p


def _last_complete(sim, exc):
    """timestamp up to which a run's rows are final: the whole index if it completed, else the date before the failure"""
    if exc is None:
        return sim.dates[-1]
    now = sim.root.now
    if now == 0:
        return None
    i = sim.dates.index(now)
    return sim.dates[i - 1] if i >= 1 else None


@register
class C04(Spec):
    id = "C04"
    tiers = {"quick": dict(runs=1600, builds=("py",), wall=80), "thorough": dict(runs=30000, builds=("py", "cy"), wall=1500)}
    rule = (
        "seeded strategy assembled from every stock scheduling / selection / statistic / weighting / rebalancing algo (nested trees, bid/offer, signal / target-weight / stat frames) is run by the real Backtest; "
        "fault future_corruption: for 4 seeded cut dates every supplied value dated after the cut is scaled / re-drawn / set NaN / zero (index unchanged) and the run repeated; all node histories and transactions up to the cut must be byte-identical; "
        "evaluations = twin pairs; distinct = distinct (plan, cut) digests; non-trivial = the base run holds a position at or before the cut"
    )
    assumptions = [
        "the calendar (date index) is not data: 'last date' logic may depend on it",
        "a node that only one run creates lazily after the cut counts as flat zero rows in the other",
        "global PRNGs are re-seeded identically before each twin",
    ]

    def gen(self, r, tier, i):
        if i % 6 == 4:
            plan = SPECS["C20"].gen(r, tier, 4 * r.randrange(1000))  # the hedge family: UpdateRisk + HedgeRisks on unit-risk tables
            plan["cfg"]["obs_eod"] = False
        elif i % 6 == 1:
            plan = drive_engine.gen_frame_gate_plan(r, tier)
        elif i % 12 == 3:
            plan = drive_engine.gen_replay_plan(r, tier)
        elif i % 12 == 9:
            # the close / roll / active families: schedule tables whose lines are dated between ticks (a line stamped later than
            # `now` - even on the same calendar day - is data dated after now)
            plan = SPECS["C20"].gen(r, tier, 4 * r.randrange(1000) + r.choice([1, 2, 3]))
            plan["cfg"]["obs_eod"] = False
        else:
            plan = drive_engine.gen_all_algos_plan(r, tier, stateful=True)
        n = len(plan["feed"]["dates"])
        plan["cuts"] = [[r.randint(0, n - 2), r.choice(["scale", "redraw", "nan", "zero", "mixed"]), r.randrange(1 << 30)] for _ in range(4)]
        if i % 12 == 9:
            # one cut right in front of a schedule line: the last tick that is still earlier than the line's stamp
            stamps = sorted(row[fr["cols"].index("date")] for fr in plan["extra"].values() if fr.get("kind") == "table" for row in fr["data"])
            before = [k for k in range(n - 1) if any(plan["feed"]["dates"][k] < sdt for sdt in stamps) and any(plan["feed"]["dates"][k] < sdt <= plan["feed"]["dates"][k + 1] for sdt in stamps)]
            if before:
                plan["cuts"][0][0] = r.choice(before)
                plan.setdefault("fired", {})["cut_right_before_a_schedule_line"] = 1
        # place one cut at a boundary that matters: inside the empty stretch at the head of a supplied frame (the first values
        # that exist are then dated after the cut - anything that reaches for "the nearest value" finds the future)
        leads = []
        for _k, fr in sorted((plan.get("extra") or {}).items()):
            if fr.get("kind") == "frame" and not fr.get("rows") and fr.get("dtype") in (None, "float"):
                ld = 0
                while ld < len(fr["data"]) and all(x is None for x in fr["data"][ld]):
                    ld += 1
                if 1 <= ld < len(fr["data"]):
                    leads.append(ld)
        if leads:
            ld = r.choice(leads)
            plan["cuts"][0][0] = min(n - 2, r.randint(max(0, ld - 3), ld - 1))
            plan["cuts"][0][1] = r.choice(["scale", "redraw"])
            plan.setdefault("fired", {})["cut_inside_leading_gap"] = 1
        plan["seed"] = r.randrange(1 << 30)
        return plan

    def run(self, bt, plan):
        import pandas as pd

        viol = []
        fired = {}
        info = {}
        nontriv = set()
        base, bexc = drive_engine.run_light(bt, plan, seed=plan["seed"])
        if base.root is None:
            return dict(viol=[], fired={}, nontrivial=False, info={"setup_failed": 1})
        blast = _last_complete(base, bexc)
        info["base_raised" if bexc is not None else "base_completed"] = 1
        n_eval = 0
        for cut, kind, cseed in plan["cuts"]:
            cp = _corrupt_future(plan, cut, kind, cseed)
            tw, texc = drive_engine.run_light(bt, cp, seed=plan["seed"])
            fired["future_corruption_" + kind] = fired.get("future_corruption_" + kind, 0) + 1
            n_eval += 1
            cutdate = pd.Timestamp(plan["feed"]["dates"][cut])
            if tw.root is None:
                viol.append({"check": "lookahead_exception", "detail": "corrupting data after %s made construction fail: %r" % (cutdate, texc), "flags": {"kind": kind}})
                continue
            tlast = _last_complete(tw, texc)
            lim = cutdate
            for x in (blast, tlast):
                if x is None:
                    lim = None
                elif lim is not None and x < lim:
                    lim = x
            # an exception on a date <= cut must occur in both runs on the same date
            bfail = base.root.now if bexc is not None else None
            tfail = tw.root.now if texc is not None else None
            if (bfail is not None and bfail <= cutdate) != (tfail is not None and tfail <= cutdate) or (bfail is not None and bfail <= cutdate and bfail != tfail):
                viol.append({"check": "lookahead_exception", "detail": "with data after %s corrupted (%s) the run fails at %s (%r) instead of %s (%r)" % (cutdate, kind, tfail, str(texc)[:80], bfail, str(bexc)[:80]), "flags": {"kind": kind}})
                continue
            if lim is None:
                continue
            ha = drive_engine.histories(base.root, lim)
            hb = drive_engine.histories(tw.root, lim)
            d = drive_engine.diff_histories(ha, hb)
            if d is not None:
                viol.append({"check": "lookahead", "detail": "data after %s corrupted (%s): history up to %s differs: %s" % (cutdate, kind, lim, d), "flags": {"kind": kind}})
                continue
            held = any(("position" in cols and (cols["position"] != 0).any()) for cols in ha.values())
            if held:
                nontriv.add((cut, kind))
        stacks = []
        for _p, s in drive_engine.trees.strategies(plan["tree"]):
            stacks += [a["a"] if a["a"] != "run_always" else a["algo"]["a"] for a in s.get("algos", [])]
        for a in set(stacks):
            info["algo_" + a] = 1
        info["twin_pairs"] = n_eval
        return dict(viol=viol, fired=fired, nontrivial=bool(nontriv), info=info, dates=len(base.dates) * (1 + n_eval), steps=n_eval)

    def owns(self, check):
        return check.startswith("lookahead")

    def simplifications(self, plan):
        out = drive_engine.simplifications(plan)
        if len(plan.get("cuts", [])) > 1:
            for c in plan["cuts"]:
                out.insert(0, dict(plan, cuts=[c]))
        return [p for p in out if all(c[0] < len(p["feed"]["dates"]) - 1 for c in p.get("cuts", []))]


def _residue_zero_base(msg):
    import re

    m = re.search(r"Currentvalue is (\S+?)\.? Therefore", msg)
    try:
        return m is not None and abs(float(m.group(1))) < 1e-6
    except ValueError:
        return False


def _nondeterministic(stack):
    return any(a.get("a") in ("SelectRandomly", "WeighRandomly") for a in stack)


@register
class C09(Spec):
    id = "C09"
    tiers = {"quick": dict(runs=4000, builds=("py",), wall=80), "thorough": dict(runs=40000, builds=("py", "cy"), wall=1500)}
    rule = (
        "seeded calendar-gated deterministic child definition is backtested (i) stand-alone with default settings and (ii) nested under a seeded parent whose allocation schedule is the fault axis "
        "(never funded, late funding, tiny funding, withdrawals, weight flips, parent flows, chaos algos); child.prices (nested) must equal strategy.prices (stand-alone) byte for byte on every date, and the column the parent "
        "sees in universe[child] must carry that series; distinct = plan digest; non-trivial = the stand-alone child traded and its index left 100"
    )
    assumptions = ["child stacks are gated by a calendar scheduler (the paper copy's stack also runs on the synthetic pre-start row) and contain no random algos", "same data, integer mode and commission function in both runs; stand-alone initial capital is the default"]

    def gen(self, r, tier, i):
        big = tier == "thorough"
        ndates = r.randint(5, 30 if big else 20)
        ntick = r.randint(2, 4)
        risk = r.random() < 0.15
        style = "bday" if risk else None
        if risk:
            ndates = max(ndates, 18)
        fspec, fired = drive_engine.gen_feed(r, ndates, ntick, style=style, faults={"late_listing": 0.15})
        if risk:
            drive_engine.ensure_moving(fspec, r)
        dates, tickers = fspec["dates"], fspec["tickers"]
        for _ in range(20):
            cst = drive_engine.gen_stack(r, fspec, risk=risk, chaos=False, gated=True)
            if not _nondeterministic(cst):
                break
        else:
            cst = [drive_engine.sched_spec(r, dates), {"a": "SelectAll"}, {"a": "WeighEqually"}, {"a": "Rebalance"}]
        lev_kid = i % 12 == 7
        if lev_kid:
            # a levered / short child definition on a price path with a shock sized around its break-even: backtested on its own
            # it may go bankrupt (flagged, liquidated, its algos no longer run, the index stays where it is) - the index the
            # sub-strategy carries under a parent, produced by the library's own paper run of it, has to do the same
            bp = drive_engine.gen_bankrupt_plan(r, tier)
            fspec, fired = bp["feed"], {k2: v2 for k2, v2 in bp["fired"].items() if k2.startswith("price_shock")}
            dates, tickers = fspec["dates"], fspec["tickers"]
            ndates, ntick, risk = len(dates), len(tickers), False

            def _w(node):
                for a in node.get("algos", []):
                    if a.get("a") == "WeighSpecified" and tickers[0] in a["weights"]:
                        return a["weights"]
                for c in node.get("children", []):
                    if c["k"] == "S":
                        w = _w(c)
                        if w:
                            return w
                return None

            cst = [r.choice([{"a": "RunOnDate", "dates": [dates[0]]}, {"a": "RunDaily"}, {"a": "RunMonthly", "kw": {"run_on_first_date": True}}]), {"a": "WeighSpecified", "weights": _w(bp["tree"])}, {"a": "Rebalance"}]
            fired["levered_child_definition"] = 1
        if r.random() < 0.2 and not lev_kid:
            # the child's run ends with a change that nothing in its own stack delivers (a contribution booked after the last
            # rebalance): the refresh after the run is the runner's job, for the stand-alone backtest and for the paper copy alike
            cst = cst + [{"a": "CapitalFlow", "args": [r.choice([1000.0, 25000.0, 2e5, 500.0])]}]  # (contributions only: a fixed withdrawal would drain a live child that its parent funds with little)
            fired["child_run_ends_with_pending_flow"] = 1
        child = {"k": "S", "name": "kid", "cls": "Strategy", "fi": False, "how": "list", "children": [], "algos": cst}
        if r.random() < 0.4 and not lev_kid:
            names = r.sample(tickers, r.randint(1, len(tickers)))
            child["children"] = [{"k": "X", "name": t, "cls": "Security", "mult": 1.0, "decl": r.choice(["str", "obj"])} for t in names]
            drive_engine._restrict(child, names)
        if r.random() < 0.25 and not risk and not lev_kid:
            # three levels: the child allocates between its own sub-strategies and may pick them by *their* price indices
            # (inside the child's paper copy those grandchildren need their own paper copies to carry an index at all)
            gap = drive_engine.max_gap_days(dates)
            gkids = []
            for gi in range(2):
                gn = r.sample(tickers, r.randint(1, len(tickers)))
                gkids.append({"k": "S", "name": "g%d" % gi, "cls": "Strategy", "fi": False, "how": "list", "children": [{"k": "X", "name": t, "cls": "Security", "mult": 1.0, "decl": r.choice(["str", "obj"])} for t in gn],
                              "algos": [drive_engine.sched_spec(r, dates), {"a": "SelectAll"}, {"a": "WeighEqually"}, {"a": "Rebalance"}]})
            pick = [{"a": "SelectAll"}]
            if r.random() < 0.6:
                pick.append({"a": "SelectMomentum", "args": [1], "kw": {"lookback": {"days": gap * r.randint(1, 4) + r.randint(0, 3)}, "lag": {"days": r.choice([0, 0, 1])}, "sort_descending": r.random() < 0.7}})
            child = {"k": "S", "name": "kid", "cls": "Strategy", "fi": False, "how": "list", "children": gkids, "algos": [drive_engine.sched_spec(r, dates)] + pick + [{"a": "WeighEqually"}, {"a": "Rebalance"}]}
            fired["three_levels"] = 1
        root = {"k": "S", "name": "parent", "cls": "Strategy", "fi": False, "how": r.choice(["list", "dict"]), "children": [child]}
        others = []
        if r.random() < 0.4:
            sib = {"k": "S", "name": "sib", "cls": "Strategy", "fi": False, "how": "list", "children": [], "algos": [drive_engine.sched_spec(r, dates), {"a": "SelectAll"}, {"a": "WeighEqually"}, {"a": "Rebalance"}]}
            root["children"].append(sib)
            others.append("sib")
        full = [t for j, t in enumerate(tickers) if all(row[j] is not None and row[j] > 0 for row in fspec["prices"])]
        if r.random() < 0.4 and full:
            # the parent's own direct holdings are fully listed tickers (a parent trading at a missing price is a different, legitimate failure)
            t = r.choice(full)
            root["children"].append({"k": "X", "name": t, "cls": "Security", "mult": 1.0, "decl": "obj"})
            others.append(t)
        mode = r.choice(["never", "late", "tiny", "steady", "flip", "withdraw", "bankrupt_parent"])
        if mode == "bankrupt_parent":
            if not full or ndates < 5:
                mode = "steady"
            else:
                x = full[0]
                j = tickers.index(x)
                if x not in others:
                    root["children"].append({"k": "X", "name": x, "cls": "Security", "mult": 1.0, "decl": "obj"})
                    others.append(x)
                d = r.randint(1, ndates - 2)
                p0 = fspec["prices"][0][j]
                for i2 in range(ndates):
                    fspec["prices"][i2][j] = round(p0 * (1 + 0.001 * (i2 % 3)) * (1.0 if i2 < d else r.uniform(0.25, 0.5)), 4)
                fired["price_shock_parent"] = 1
        names = ["kid"] + others
        extra = {}
        st = [{"a": "Spy", "id": 0}]
        if mode == "never":
            st += [drive_engine.sched_spec(r, dates), {"a": "WeighSpecified", "weights": {n: (0.0 if n == "kid" else round(0.9 / max(1, len(others)), 4)) for n in names}}, {"a": "Rebalance"}]
        elif mode == "late":
            st += [{"a": "RunAfterDate", "date": dates[r.randrange(len(dates))]}, {"a": "WeighSpecified", "weights": {n: round(0.95 / len(names), 4) for n in names}}, {"a": "Rebalance"}]
        elif mode == "tiny":
            st += [drive_engine.sched_spec(r, dates), {"a": "WeighSpecified", "weights": {"kid": r.choice([1e-6, 1e-4, 0.001])}}, {"a": "Rebalance"}]
        elif mode == "bankrupt_parent":
            ws = {n: 0.1 for n in names}
            ws["kid"] = 0.4
            ws[full[0]] = 2.5
            st += [{"a": "RunOnDate", "dates": [dates[0]]}, {"a": "WeighSpecified", "weights": ws}, {"a": "Rebalance"}]
        elif mode == "steady":
            st += [drive_engine.sched_spec(r, dates), {"a": "WeighSpecified", "weights": {n: round(r.choice([0.5, 0.95, 1.0]) / len(names), 4) for n in names}}, {"a": "Rebalance"}]
        else:
            rows = sorted(r.sample(dates, r.randint(2, len(dates))))
            data = []
            for k, _d in enumerate(rows):
                if mode == "withdraw":
                    wk = [0.8, 0.0, 0.3, 0.0][k % 4]
                else:
                    wk = r.choice([0.0, 0.1, 0.5, 0.9])
                rest = (0.95 - wk) / max(1, len(others)) if others else 0.0
                data.append([wk] + [round(max(rest, 0.0), 4) for _ in others])
            extra["ptw"] = drive_engine._frame(names, data, rows=rows)
            st += [{"a": "WeighTarget", "args": ["ptw"]}, {"a": "Rebalance"}]
        if r.random() < 0.4:
            st.insert(1, drive_engine.chaos_spec(r, ndates, flows=True, capital=1e6))
        if r.random() < 0.2:
            st.insert(1, {"a": "CapitalFlow", "args": [round(r.choice([1, -1]) * r.choice([0.01, 0.1]) * 1e6, 2)]})
        root["algos"] = st
        cfg = {"integer": r.random() < 0.5, "comm": commod.gen(r, feedmod.min_unit(fspec["prices"])) if r.random() < 0.6 else None, "capital": r.choice([1e4, 1e6, 5e7]), "fi": False, "obs_price": False, "obs_eod": False, "profile": "nested"}
        return {"driver": "engine", "cfg": cfg, "tree": root, "feed": fspec, "extra": extra, "fired": fired, "mode": mode, "seed": r.randrange(1 << 30)}

    def run(self, bt, plan):
        import numpy as np

        viol = []
        fired = {"alloc_" + plan["mode"]: 1}
        info = {}
        child = [c for c in plan["tree"]["children"] if c["name"] == "kid"][0]
        alone_plan = dict(plan, tree=dict(child), cfg=dict(plan["cfg"], capital=1000000.0, name="kid"), extra={})
        alone, aexc = drive_engine.run_light(bt, alone_plan, seed=plan["seed"])
        captured = []

        def hook(spy, target, t):
            if spy.spec["id"] == 0 and target.root is target and "kid" in target.universe.columns:
                captured.append((t, target.universe["kid"].to_numpy(dtype=float, na_value=float("nan")).copy()))

        from . import taps as _taps

        _taps.install(bt)
        sim = drive_engine.EngineSim(bt, plan, set())
        sim.light = True
        sim.spy_hook = hook
        rng.pin_globals(plan["seed"])
        nexc = None
        try:
            sim.setup()
            sim.bkt.run()
        except Exception as e:  # noqa
            nexc = e
        finally:
            _taps.set_current(None)
        if sim.root is None or alone.root is None:
            return dict(viol=[], fired=fired, nontrivial=False, info={"setup_failed": 1})
        a_last = _last_complete(alone, aexc)
        n_last = _last_complete(sim, nexc)
        if (aexc is None) != (nexc is None):
            info["exception_one_side"] = 1
        if nexc is not None and any(str(nexc).startswith(st) for st in drive_tree.SIZING_STEMS):
            # the run died from the known sizing-search defect (C05/C10): blocked, not judged here
            viol.append({"check": "C10.sizing_exception", "detail": str(nexc)[:100], "flags": {"stem": str(nexc)[:24]}})
        elif isinstance(nexc, ZeroDivisionError) and sim.root.bankrupt:
            # the parent went bankrupt and was liquidated inside the date's algo run, the child's stack then traded on the liquidated
            # tree and the child sits on a zero base (C16's KF-C16-liquidation-inside-the-algo-run-does-not-stop-it): not about C09
            viol.append({"check": "bankrupt_traded_after", "detail": "parent bankrupt, then %s" % str(nexc)[:100], "flags": {"liquidated_mid_run": True}})
        elif isinstance(nexc, ZeroDivisionError) and _residue_zero_base(str(nexc)):
            # everything was withdrawn from a node and what is left of its value is float residue (1e-14) on an exactly zero
            # base: the zero-base refusal is legitimate there ('either' regime of the ledger oracle), and not about the index
            info["zero_base_on_float_residue"] = 1
        elif isinstance(nexc, ZeroDivisionError) and "Could not update parent " in str(nexc):
            # the parent itself sits on a zero base (drained by flows): legitimate, and not about the child
            info["parent_zero_base"] = 1
        elif aexc is None and nexc is not None:
            viol.append({"check": "c09_nested_fails", "detail": "stand-alone run completes but the nested run raises at %s: %s: %s" % (sim.root.now, type(nexc).__name__, str(nexc)[:160]), "flags": {"exc": type(nexc).__name__}})
        if a_last is None or n_last is None:
            return dict(viol=viol, fired=fired, nontrivial=False, info=info)
        lim = min(a_last, n_last)
        pa = alone.root.prices.loc[:lim]
        kid = sim.root.children["kid"]
        pn = kid.prices.loc[:lim]
        xa = pa.to_numpy(dtype=float)
        xn = pn.to_numpy(dtype=float)
        if len(xa) != len(xn) or xa.tobytes() != xn.tobytes():
            bad = [i for i in range(min(len(xa), len(xn))) if xa[i] != xn[i]]
            i = bad[0] if bad else min(len(xa), len(xn))
            viol.append({"check": "c09_index", "detail": "funding mode %s: nested index[%s]=%r, stand-alone index=%r" % (plan["mode"], pa.index[min(i, len(pa) - 1)], xn[i] if i < len(xn) else None, xa[i] if i < len(xa) else None), "flags": {"mode": plan["mode"]}})
        else:
            for t, col in captured:
                k = t + 2  # rows 0..t+1 (synthetic row + t+1 real dates) are dated <= now
                if k > len(xa):
                    continue
                if col[:k].tobytes() != xa[:k].tobytes():
                    bad = [i for i in range(k) if not (col[i] == xa[i] or (col[i] != col[i] and xa[i] != xa[i]))]
                    if bad:
                        viol.append({"check": "c09_universe", "detail": "on date #%d the parent sees universe['kid'][%d]=%r, the child's index is %r" % (t, bad[0], col[bad[0]], xa[bad[0]]), "flags": {}})
                        break
        if not viol and nexc is None and aexc is None:
            # ... and what the finished parent shows for the child, date for date (also the dates on which its own stack did not
            # run: before it started, after it went bankrupt)
            try:
                col = sim.root.universe["kid"].to_numpy(dtype=float, na_value=float("nan"))
            except Exception:  # noqa
                col = None
            if col is not None and len(col) == len(xn) and len(xn) == len(xa):
                bad = [i for i in range(1, len(col)) if not (col[i] == xa[i] or (col[i] != col[i] and xa[i] != xa[i]))]
                if bad:
                    viol.append({"check": "c09_universe", "detail": "after the run the parent's universe['kid'][%d]=%r, the child's index is %r (parent bankrupt: %r)" % (bad[0], col[bad[0]], xa[bad[0]], bool(sim.root.bankrupt)), "flags": {"after_run": True}})
                fired["universe_column_read_after_run"] = 1
        nontriv = bool(len(xa) and (np.abs(xa - 100.0) > 1e-9).any())
        info["universe_reads"] = len(captured)
        return dict(viol=viol, fired=fired, nontrivial=nontriv, info=info, dates=len(sim.dates) * 2, steps=len(sim.spy_log))

    def owns(self, check):
        return check.startswith("c09_")

    def simplifications(self, plan):
        return drive_engine.simplifications(plan)


# ============================================================================================
# C11 isolation / repeatability / no input mutation
# ============================================================================================
import hashlib as _hashlib
import threading as _threading


def deep_state(obj, memo=None, depth=0):
    """canonical, hashable description of an object graph (algo state, tree wiring, frames)"""
    import numpy as np
    import pandas as pd

    if memo is None:
        memo = {}
    if obj is None or isinstance(obj, (bool, int, str, bytes)):
        return repr(obj)
    if isinstance(obj, float):
        return obj.hex() if obj == obj else "nan"
    if isinstance(obj, (np.floating, np.integer, np.bool_)):
        return repr(obj.item())
    oid = id(obj)
    if oid in memo:
        return "<ref %d>" % memo[oid]
    memo[oid] = len(memo)
    if isinstance(obj, pd.DataFrame):
        return ("DF", tuple(map(str, obj.columns)), tuple(map(str, obj.dtypes)), _hashlib.sha1(repr(list(obj.index)).encode()).hexdigest(), _hashlib.sha1(obj.to_numpy(dtype=object).astype(str).tobytes()).hexdigest(), bool(obj.to_numpy().flags.writeable) if len(obj.columns) == 1 else None)
    if isinstance(obj, pd.Series):
        return ("SR", str(obj.dtype), _hashlib.sha1(repr(list(obj.index)).encode()).hexdigest(), _hashlib.sha1(obj.to_numpy(dtype=object).astype(str).tobytes()).hexdigest())
    if isinstance(obj, pd.Index):
        return ("IX", _hashlib.sha1(repr(list(obj)).encode()).hexdigest())
    if isinstance(obj, np.ndarray):
        return ("ND", str(obj.dtype), obj.shape, _hashlib.sha1(obj.astype(str).tobytes()).hexdigest())
    if isinstance(obj, (pd.Timestamp, pd.DateOffset)):
        return repr(obj)
    if depth > 40:
        return "<deep>"
    if isinstance(obj, dict):
        return ("D", tuple((deep_state(k, memo, depth + 1), deep_state(v, memo, depth + 1)) for k, v in obj.items()))
    if isinstance(obj, (list, tuple)):
        return ("L", tuple(deep_state(x, memo, depth + 1) for x in obj))
    if isinstance(obj, (set, frozenset)):
        return ("S", tuple(sorted(deep_state(x, memo, depth + 1) for x in obj)))
    if callable(obj) and not hasattr(obj, "__dict__"):
        return "<fn>"
    d = getattr(obj, "__dict__", None)
    if d is None:
        return "<%s>" % type(obj).__name__
    skip = ("sim",)
    return (type(obj).__name__, tuple((k, deep_state(v, memo, depth + 1)) for k, v in sorted(d.items()) if k not in skip))


def _digest(x):
    return _hashlib.sha256(repr(x).encode()).hexdigest()[:20]


def history_digest(root):
    h = _hashlib.sha256()
    for name, cols in sorted(drive_engine.histories(root).items()):
        h.update(name.encode())
        for c in sorted(cols):
            h.update(c.encode())
            h.update(cols[c].tobytes())
    return h.hexdigest()[:20]


class Baton(object):
    """real threads, simulated choice of who runs: every spy / commission call parks the thread;
    the seeded scheduler releases exactly one thread at a time."""

    def __init__(self, rnd):
        self.rnd = rnd
        self.cv = _threading.Condition()
        self.turn = None
        self.waiting = set()
        self.done = set()
        self.tids = []
        self.trace = []
        self.local = _threading.local()

    def yield_(self):
        tid = getattr(self.local, "tid", None)
        if tid is None:
            return
        with self.cv:
            self.turn = None
            self.waiting.add(tid)
            self.cv.notify_all()
            while self.turn != tid:
                self.cv.wait()
            self.waiting.discard(tid)

    def run(self, jobs):
        errs = {}

        def wrap(tid, fn):
            self.local.tid = tid
            with self.cv:
                self.waiting.add(tid)
                self.cv.notify_all()
                while self.turn != tid:
                    self.cv.wait()
                self.waiting.discard(tid)
            try:
                fn()
            except Exception as e:  # noqa
                errs[tid] = e
            with self.cv:
                self.done.add(tid)
                self.turn = None
                self.cv.notify_all()

        ths = []
        for tid, fn in enumerate(jobs):
            t = _threading.Thread(target=wrap, args=(tid, fn), daemon=True)
            ths.append(t)
            t.start()
        n = len(jobs)
        with self.cv:
            while len(self.done) < n:
                while self.turn is not None or len(self.waiting) + len(self.done) < n:
                    if not self.cv.wait(timeout=60):
                        raise RuntimeError("baton scheduler stalled")
                    if len(self.done) >= n:
                        break
                if len(self.done) >= n:
                    break
                pick = self.rnd.choice(sorted(self.waiting))
                self.trace.append(pick)
                self.turn = pick
                self.cv.notify_all()
        for t in ths:
            t.join(timeout=10)
        return errs


@register
class C11(Spec):
    id = "C11"
    tiers = {"quick": dict(runs=400, builds=("py",), wall=80), "thorough": dict(runs=20000, builds=("py", "cy"), wall=1500)}
    rule = (
        "K<=4 backtests are built from one seeded template (stateful and random algos included) and one set of input frames: seeded order of construction and of run(), and - for templates without random algos - "
        "a seeded interleaving of their steps (baton scheduler: real threads parked at every spy / commission call, one released at a time); every backtest's histories must be byte-identical to the same backtest run alone from a fresh template, "
        "the template's and the input frames' deep digests must be unchanged, a second run() must be a no-op; a sample of plans is re-run in fresh interpreters under 3 PYTHONHASHSEED values and the digests compared; "
        "distinct = plan digest; non-trivial = some backtest traded"
    )
    assumptions = ["random / numpy.random are re-seeded to the same value before each run() (the property's 'with the random seeds fixed')", "interleaved runs exclude SelectRandomly / WeighRandomly (they share the process-global PRNG by design)"]

    def gen(self, r, tier, i):
        sweep = i % 5 == 2
        if i % 10 == 9:
            # a blotter (rows in any order) handed in as additional data and replayed: one more frame that belongs to the caller
            plan = drive_engine.gen_replay_plan(r, tier)
        elif i % 10 == 6:
            # a portfolio built up and wound down in capped steps: a covariance-based weigher sees an empty selection before and
            # after the invested stretch, LimitDeltas completes the (empty) target vector with the names still held - whatever
            # object carries the weights from one algo to the next on such a date belongs to that date of that backtest only
            fspec, fired = drive_engine.gen_feed(r, r.randint(20, 30), r.randint(3, 4), style="bday", faults={}, spread_p=0.0)
            drive_engine.ensure_moving(fspec, r)
            dts, tick = fspec["dates"], fspec["tickers"]
            a0 = r.randint(14, len(dts) - 5)
            b0 = r.randint(a0 + 1, len(dts) - 3)
            sig = [[a0 <= k < b0 for _ in tick] for k in range(len(dts))]
            wk = r.choice(["WeighInvVol", "WeighERC", "WeighMeanVar"])
            st = [{"a": "SelectWhere", "args": ["wd"]}, {"a": wk, "kw": {"lookback": {"days": r.randint(10, 16)}, "lag": {"days": r.choice([0, 1])}}}, {"a": "LimitDeltas", "kw": {"limit": r.choice([0.05, 0.1, 0.2])}}, {"a": "Rebalance"}]
            fired["capped_wind_down_after_empty_selection"] = 1
            plan = {"driver": "engine", "cfg": {"integer": False, "comm": None, "capital": 1e6, "fi": False, "obs_price": False, "obs_eod": False, "profile": "weigh"},
                    "tree": {"k": "S", "name": "top", "cls": "Strategy", "fi": False, "how": "list", "children": [], "algos": st}, "feed": fspec, "extra": {"wd": drive_engine._frame(tick, sig, dtype="bool")}, "fired": fired}
        elif i % 10 == 4:
            # unit-risk tables (a dict of frames inside additional_data, some securities missing from some tables): nested
            # inputs are the caller's too
            plan = SPECS["C20"].gen(r, tier, 4 * r.randrange(1000))
            plan["cfg"]["obs_eod"] = False
        else:
            plan = drive_engine.gen_all_algos_plan(r, tier, stateful=True, random_algos=(i % 2 == 0) or sweep)
        if sweep and r.random() < 0.5:
            # plans recomputed under other hash seeds: make sure the process-global PRNG consumers are among them
            for _p, s in drive_engine.trees.strategies(plan["tree"]):
                st = s.get("algos", [])
                pos = [k for k, a in enumerate(st) if str(a.get("a", "")).startswith("Select")]
                if pos:
                    st.insert(pos[0] + 1, {"a": "SelectRandomly", "kw": {"n": r.randint(1, 3)}})
                    break
        elif sweep and len(plan["feed"]["tickers"]) >= 3 and not any(c["k"] == "S" for c in plan["tree"]["children"]):
            # ... and the places where weights travel from algo to algo as dicts keyed by name: dated targets over changing subsets,
            # so that several held names are absent from the vector LimitDeltas completes (whatever order it visits them in decides
            # the order of the trades and with it the float summation of cash)
            tick, dts = plan["feed"]["tickers"], plan["feed"]["dates"]
            rows = sorted(r.sample(dts, min(len(dts), r.randint(3, 6))))
            data = []
            for _ in rows:
                sub = r.sample(tick, r.randint(1, max(1, len(tick) - 2)))
                raw = [r.random() + 0.05 for _ in sub]
                ws = {n: round(x / sum(raw), 4) for n, x in zip(sub, raw)}
                data.append([ws.get(n) for n in tick])
            plan.setdefault("extra", {})["hsw"] = drive_engine._frame(tick, data, rows=rows)
            plan["tree"]["algos"] = [{"a": "WeighTarget", "args": ["hsw"]}, {"a": "LimitDeltas", "kw": {"limit": r.choice([0.05, 0.1, 0.3])}}, {"a": "Rebalance"}]
            plan["tree"]["children"] = []
            plan["cfg"]["integer"] = False
            plan.setdefault("fired", {})["weights_dict_order_plan"] = 1
        if r.random() < 0.3:
            # state kept in target.perm by a user algo: every backtest (and every paper copy) must have its own
            ss = r.choice([s2 for _p2, s2 in drive_engine.trees.strategies(plan["tree"])])
            st = ss.get("algos", [])
            st.insert(r.randint(0, len(st)), {"a": "PermGate", "limit": r.randint(1, 6)})
            plan.setdefault("fired", {})["state_in_perm"] = 1
        # spies inside the stacks are the yield points of the interleaving
        k = 0
        for _p, s in drive_engine.trees.strategies(plan["tree"]):
            st = s.get("algos", [])
            pos = r.randint(0, len(st))
            st.insert(pos, {"a": "Spy", "id": k})
            st.append({"a": "Spy", "id": k + 1, "run_always": True})
            k += 2
        plan["K"] = r.randint(2, 4)
        plan["order_build"] = r.sample(range(plan["K"]), plan["K"])
        plan["order_run"] = r.sample(range(plan["K"]), plan["K"])
        plan["seed"] = r.randrange(1 << 30)
        plan["ileave"] = r.randrange(1 << 30)
        plan["hashsweep"] = sweep
        if plan["cfg"].get("comm") is None and r.random() < 0.5:
            plan["cfg"]["comm"] = {"kind": "prop", "rate": 0.001}
        return plan

    # -- helpers
    def _ctx(self, bt, plan, baton=None):
        sim = drive_engine.EngineSim(bt, plan, set())
        sim.light = True
        import pandas as pd

        fr = sim.feed.frames(synthetic=False)
        data = fr["prices"]
        syn = data.index[0] - pd.DateOffset(days=1)
        sim._didx = {syn: -1}
        for i, d in enumerate(data.index):
            sim._didx[d] = i
        xd = sim.extra_data()
        sim.frames_by_name = xd
        add = {k: v for k, v in fr.items() if k != "prices"}
        add.update(xd)
        if baton is not None:
            sim.spy_hook = lambda spy, target, t: baton.yield_()
        return sim, data, add

    def _mk(self, bt, plan, sim, template, data, add, k, baton=None):
        cfg = plan["cfg"]
        comm = None
        if cfg.get("comm"):
            base = commod.make(cfg["comm"])
            if baton is not None:

                def comm(q, p, base=base):
                    baton.yield_()
                    return base(q, p)

            else:
                comm = base
        if k % 2:
            # every other backtest of the family sees another price scenario on the same calendar and tickers (one template run
            # over several scenarios): whatever one of them computes must not reach the others
            import numpy as _np

            fac = _np.array([[1.0 + 0.04 * _np.sin(0.7 * k + 0.9 * i * (j + 1)) for j in range(data.shape[1])] for i in range(data.shape[0])])
            data = data * fac
        return bt.Backtest(template, data, name="b%d" % k, initial_capital=cfg["capital"] * (1 + k), commissions=comm, integer_positions=cfg["integer"] if k % 2 == 0 else not cfg["integer"], progress_bar=False, additional_data=add or None)

    def _has_random(self, plan):
        for _p, s in drive_engine.trees.strategies(plan["tree"]):
            if _nondeterministic(s.get("algos", [])):
                return True
        return False

    def digests_alone(self, bt, plan, reverse=False):
        """each of the K backtests run alone from a fresh template (the fresh-interpreter child runs them in the opposite order:
        anything that survives from one backtest to the next inside a process then shows as a difference between the two)"""
        out = {}
        for k in (reversed(range(plan["K"])) if reverse else range(plan["K"])):
            sim, data, add = self._ctx(bt, plan)
            template = drive_engine.trees.build(bt, plan["tree"], algos_for=sim.algos_for)
            b = self._mk(bt, plan, sim, template, data, add, k)
            rng.pin_globals(plan["seed"] + k)
            try:
                b.run()
                err = None
            except Exception as e:  # noqa
                err = type(e).__name__ + ":" + str(e)[:60]
            out[k] = (history_digest(b.strategy) if getattr(b.strategy, "data", None) is not None else None, err, len(sim.spy_log))
        return [out[k] for k in range(plan["K"])]

    def run(self, bt, plan):
        import random as _r

        viol = []
        fired = {}
        info = {}
        K = plan["K"]
        alone = self.digests_alone(bt, plan)
        traded = False
        # ---- one template, seeded construction and run order, PRNG perturbation between runs
        sim, data, add = self._ctx(bt, plan)
        template = drive_engine.trees.build(bt, plan["tree"], algos_for=sim.algos_for)
        t0 = _digest(deep_state(template))
        d0 = _digest(deep_state([data, add]))
        bs = {}
        for k in plan["order_build"]:
            bs[k] = self._mk(bt, plan, sim, template, data, add, k)
        if _digest(deep_state(template)) != t0:
            viol.append({"check": "c11_template_mutated", "detail": "constructing backtests changed the strategy template", "flags": {"when": "construct"}})
        if _digest(deep_state([data, add])) != d0:
            viol.append({"check": "c11_input_mutated", "detail": "constructing backtests changed the input frames", "flags": {"when": "construct"}})
        fired["order_permutation"] = 1
        for k in plan["order_run"]:
            _r.random()
            _r.random()  # global_prng_perturb: extra draws between runs
            fired["global_prng_perturb"] = fired.get("global_prng_perturb", 0) + 1
            rng.pin_globals(plan["seed"] + k)
            n0 = len(sim.spy_log)
            try:
                bs[k].run()
                err = None
            except Exception as e:  # noqa
                err = type(e).__name__ + ":" + str(e)[:60]
            nspy = len(sim.spy_log) - n0
            dg = history_digest(bs[k].strategy) if getattr(bs[k].strategy, "data", None) is not None else None
            if (dg, err, nspy) != alone[k]:
                viol.append({"check": "c11_order_dependence", "detail": "backtest %d of %d (build order %s, run order %s) differs from the same backtest run alone: %s vs %s" % (k, K, plan["order_build"], plan["order_run"], (dg, err, nspy), alone[k]), "flags": {}})
            if err is None:
                # second run() must not re-run
                n1 = len(sim.spy_log)
                try:
                    bs[k].run()
                except Exception as e:  # noqa
                    viol.append({"check": "c11_rerun", "detail": "run() on a finished backtest raised %s" % type(e).__name__, "flags": {}})
                fired["second_run"] = fired.get("second_run", 0) + 1
                if len(sim.spy_log) != n1 or history_digest(bs[k].strategy) != dg:
                    viol.append({"check": "c11_rerun", "detail": "run() on a finished backtest ran the strategy again", "flags": {}})
                try:
                    if (bs[k].strategy.positions.to_numpy() != 0).any() if len(bs[k].strategy.positions.columns) else False:
                        traded = True
                except Exception:  # noqa  (a tree left half-reset by a broken second run() must not crash the harness)
                    pass
        if _digest(deep_state(template)) != t0:
            viol.append({"check": "c11_template_mutated", "detail": "running backtests changed the strategy template they were built from", "flags": {"when": "run"}})
        if _digest(deep_state([data, add])) != d0:
            viol.append({"check": "c11_input_mutated", "detail": "running backtests changed the input frames", "flags": {"when": "run"}})
        # ---- interleaved steps (deterministic templates only)
        if not self._has_random(plan):
            baton = Baton(_random.Random(plan["ileave"]))
            sim2, data2, add2 = self._ctx(bt, plan, baton=baton)
            template2 = drive_engine.trees.build(bt, plan["tree"], algos_for=sim2.algos_for)
            bs2 = [self._mk(bt, plan, sim2, template2, data2, add2, k, baton=baton) for k in range(K)]
            errs = baton.run([b.run for b in bs2])
            fired["interleave"] = 1
            info["interleave_switches"] = len(baton.trace)
            for k in range(K):
                e = errs.get(k)
                err = None if e is None else type(e).__name__ + ":" + str(e)[:60]
                dg = history_digest(bs2[k].strategy) if getattr(bs2[k].strategy, "data", None) is not None else None
                if (dg, err) != alone[k][:2]:
                    viol.append({"check": "c11_interleaving", "detail": "backtest %d of %d interleaved step by step with the others (schedule seed %d, %d switches) differs from running alone: %s vs %s" % (k, K, plan["ileave"], len(baton.trace), (dg, err), alone[k][:2]), "flags": {}})
        # ---- other interpreters, other hash seeds (sampled: a fresh process costs seconds)
        if plan.get("hashsweep"):
            import json as _json
            import os as _os
            import subprocess as _sp
            import sys as _sys

            from . import runner as _runner

            for hs in ("1", "7919"):
                env = dict(_os.environ)
                env["PYTHONHASHSEED"] = hs
                env["BT_VERIF_PINNED"] = "1"
                p = _sp.run([_sys.executable, "-u", _os.path.join(_os.path.dirname(_os.path.abspath(__file__)), "hashseed_child.py")], input=_json.dumps({"plan": plan, "snap": _runner._SNAP, "compiled": _runner._BUILD == "cy"}), env=env, stdout=_sp.PIPE, stderr=_sp.PIPE, text=True, timeout=600)
                fired["hashseed"] = fired.get("hashseed", 0) + 1
                if p.returncode != 0:
                    raise RuntimeError("hashseed child failed: " + p.stderr[-800:])
                other = [tuple(x) for x in _json.loads(p.stdout.strip().splitlines()[-1])]
                if other != [tuple(x) for x in alone]:
                    viol.append({"check": "c11_process_dependence", "detail": "a fresh interpreter with PYTHONHASHSEED=%s gives %s, this process (PYTHONHASHSEED=%s) %s" % (hs, other, _os.environ.get("PYTHONHASHSEED"), alone), "flags": {}})
                    break
        info["K"] = K
        return dict(viol=viol, fired=fired, nontrivial=traded, info=info, dates=len(plan["feed"]["dates"]) * K * 3, steps=len(sim.spy_log))

    def owns(self, check):
        return check.startswith("c11_")

    def simplifications(self, plan):
        return drive_engine.simplifications(plan)


@register
class C16(TreeSpec):
    id = "C16"
    judged = ("C16",)
    own_checks = ("bankrupt_missed", "bankrupt_spurious", "bankrupt_sub", "bankrupt_fi", "bankrupt_residual", "bankrupt_algos_ran", "bankrupt_positions_after", "bankrupt_not_constant", "bankrupt_traded_after", "ledger_value", "ledger_pos", "ledger_cash")
    tiers = {"quick": dict(runs=12000, builds=("py",), wall=75), "thorough": dict(runs=120000, builds=("py", "cy"), wall=1500)}
    rule = (
        "leveraged / short portfolios (flat and nested, positions held by grandchildren) meet a seeded price shock sized to push equity through, onto or just above zero on any date, with recovery afterwards; tree-driver runs add arbitrary op histories with leverage; "
        "the flag is judged at every root update against the reference model's equity (must be set below -tol, must not be set above +tol, band inconclusive), all positions of the whole tree must be zero right after the liquidating update, the ledger must still reconcile "
        "(liquidation at that date's prices, value changes only by closing costs), afterwards no live spy may run and positions / value / cash stay constant; sub-strategies and FI roots never flagged; non-trivial = a bankruptcy occurred or equity came within 50% of zero"
    )

    def gen(self, r, tier, i):
        if i % 2:
            return drive_engine.gen_bankrupt_plan(r, tier)
        if i % 16 == 6:
            return drive_tree.gen_worthless_sub_plan(r, tier)
        if i % 16 == 14:
            return drive_tree.gen_levered_carry_plan(r, tier)
        return drive_tree.gen_plan(r, "bankrupt" if i % 4 else "fi", tier)

    def run(self, bt, plan):
        if plan["driver"] == "engine":
            sim = drive_engine.run_engine_plan(bt, plan, set(self.judged))
            if sim.completed:
                drive_engine.check_terminal(sim)
            self._sim = sim
        res = TreeSpec.run(self, bt, plan) if plan["driver"] != "engine" else self._result(sim, plan)
        f = res["fired"]
        res["nontrivial"] = bool(f.get("bankruptcy")) or (res["nontrivial"] and plan["cfg"].get("profile") == "bankrupt")
        if f.get("bankruptcy"):
            res["info"]["bankruptcies"] = 1
        return res

    def _result(self, sim, plan):
        info = {"stop_" + str(sim.stop_reason): 1, "driver_engine": 1, "observations": sim.nobs, "trades": sim.model.ntrades, "root_updates": sim.root_updates, "outcome_" + plan["cfg"].get("outcome", "?"): 1}
        for k, v in sim.inconclusive.items():
            info["inconclusive_" + k] = v
        return dict(viol=sim.viol, fired=sim.fired, nontrivial=(sim.model.ntrades >= 1 and sim.ticks >= 3), states=sim.states, bigrams=sim.bigrams, dates=sim.ticks, steps=len(sim.spy_log) + sim.root_updates, info=info)


@register
class C06(Spec):
    id = "C06"
    tiers = {"quick": dict(runs=8000, builds=("py",), wall=75), "thorough": dict(runs=80000, builds=("py", "cy"), wall=1500)}
    rule = (
        "real Backtest.run()s in which Rebalance / RebalanceOverTime sit behind an oracle wrapper and are fed plan-controlled target vectors (long, short, sum <= 1, targets appearing and disappearing, sub-strategy targets funded / unfunded / invested, "
        "optional temp['cash']) on successive dates of moving prices, so that every rebalance starts from a drifted non-flat portfolio; at the algo's return every target is worth (1-c)*w*base exactly (fractional, costless) or within one unit plus costs, "
        "non-targets are closed, cash is the remainder, a sub-strategy's internal fractions are unchanged by the transfer; distinct = plan digest; non-trivial = >= 2 judged rebalances"
    )
    assumptions = ["base = node value read on entry of the algo", "tolerance otherwise: one unit (integer mode) + costs paid during the call + cost of one more unit", "runs aborted by the known sizing-search exceptions are counted as blocked"]

    def gen(self, r, tier, i):
        return drive_engine.gen_rebalance_plan(r, tier)

    def run(self, bt, plan):
        from .monitors.c06 import C06Monitor

        mon = {}

        def prepare(sim):
            mon["m"] = C06Monitor(sim)
            sim.wrap_monitor = mon["m"]

        sim = drive_engine.run_engine_plan(bt, plan, {"C06"}, prepare=prepare)
        info = {"stop_" + str(sim.stop_reason): 1, "rebalances_judged": mon["m"].judged if mon else 0, "trades": sim.model.ntrades}
        return dict(viol=sim.viol, fired=sim.fired, nontrivial=bool(mon and mon["m"].judged >= 2), states=sim.states, dates=sim.ticks, steps=sim.root_updates, info=info)

    def owns(self, check):
        return check.startswith("c06_")

    def simplifications(self, plan):
        return drive_engine.simplifications(plan)


@register
class C17(TreeSpec):
    id = "C17"
    judged = ("C17",)
    own_checks = ("notional", "weight_fi", "index_fi", "rows_notional_value", "rows_coupon", "rows_holding_cost", "rows_cash", "rows_value", "ledger_cash", "ledger_value", "ledger_pos", "cash_ledger", "conservation", "bankrupt_fi",
                  "c17_notional_target", "c17_not_closed", "c17_target_missing", "c17_renormalized")
    tiers = {"quick": dict(runs=8000, builds=("py",), wall=75), "thorough": dict(runs=120000, builds=("py", "cy"), wall=1500)}
    rule = (
        "fixed-income trees with all five security types, multipliers, irregular / zero coupon schedules and asymmetric long/short holding costs: op-level runs (transact / rebalance-with-base / close / flatten / spread, duplicate ticks, intraday re-trades) against the reference ledger "
        "(notional per type, weights = notional fractions, carry accrued on the end-of-day position and swept into the parent's cash on the next date exactly once, additive index on previous notional) and real Backtest runs where SetNotional + Rebalance sit behind an oracle wrapper "
        "(notional_i = w_i x set notional; non-targets closed; RenormalizedFixedIncomeResult formula); distinct = plan digest; non-trivial = >= 1 trade and >= 2 ticks"
    )

    def gen(self, r, tier, i):
        if i % 3 == 2:
            return drive_engine.gen_fi_plan(r, tier)
        return drive_tree.gen_plan(r, "fi", tier)

    def run(self, bt, plan):
        if plan["driver"] != "engine":
            return TreeSpec.run(self, bt, plan)
        from .monitors import c17

        mon = {}

        def prepare(sim):
            mon["m"] = c17.C17Monitor(sim)
            sim.wrap_monitor = mon["m"]

        sim = drive_engine.run_engine_plan(bt, plan, set(self.judged), prepare=prepare)
        if sim.completed and sim.stop_reason is None:
            c17.check_renormalized(sim)
        info = {"stop_" + str(sim.stop_reason): 1, "driver_engine": 1, "fi_rebalances_judged": mon["m"].judged if mon else 0, "trades": sim.model.ntrades, "observations": sim.nobs}
        for k, v in sim.inconclusive.items():
            info["inconclusive_" + k] = v
        return dict(viol=sim.viol, fired=sim.fired, nontrivial=(sim.model.ntrades >= 1 and sim.ticks >= 3), states=sim.states, bigrams=sim.bigrams, dates=sim.ticks, steps=sim.root_updates, info=info)


@register
class C12(Spec):
    id = "C12"
    tiers = {"quick": dict(runs=8000, builds=("py",), wall=75), "thorough": dict(runs=80000, builds=("py",), wall=1200)}
    rule = (
        "the simulator owns the clock: seeded date indices (business days, calendar gaps from a weekend to months, intraday stamps, starts just before year / quarter / ISO-week-52/53/1 / leap-day boundaries, sparse) are fed to real Backtest.run()s whose root and sub-strategy stacks hold "
        "4-8 probes, each wrapping one scheduler with seeded flags / n / offset / dates, some invoked twice per date; every boolean returned on every date is compared with a reference calendar written from the statement (datetime / isocalendar only); "
        "paper copies give the synthetic-row invocations, a copied strategy with an off-index `now` the outside-the-data case; distinct = plan digest; non-trivial = >= 20 judged booleans"
    )
    assumptions = ["the RunPeriod family is a pure function of (index, position): the clock shapes come from seeded generation (moderate fit, see DESIGN)", "RunAfterDays counts invocations by design; it is only judged with one invocation per date"]

    def gen(self, r, tier, i):
        n = r.choice([1, 2, 3, 5, 8, 13, 21, 34, 60 if tier == "thorough" else 40])
        dates, style = feedmod.gen_dates(r, n)
        prices = [[100.0 + k] for k in range(n)]
        fspec = {"dates": dates, "tickers": ["A"], "prices": prices, "style": style}
        probes = []
        fam = ["RunDaily", "RunWeekly", "RunMonthly", "RunQuarterly", "RunYearly"]
        for k in range(r.randint(4, 8)):
            a = r.choice(fam + fam + ["RunOnce", "RunOnDate", "RunAfterDate", "RunAfterDays", "RunEveryNPeriods"])
            if a in fam:
                inner = {"a": a, "kw": {"run_on_first_date": r.random() < 0.5, "run_on_end_of_period": r.random() < 0.5, "run_on_last_date": r.random() < 0.5}}
                if r.random() < 0.3:
                    # the same flags given by position (documented order: first date, end of period, last date)
                    kwf = inner.pop("kw")
                    inner["args"] = [kwf["run_on_first_date"], kwf["run_on_end_of_period"], kwf["run_on_last_date"]][: r.randint(2, 3)]
            elif a == "RunOnce":
                inner = {"a": a}
            elif a == "RunOnDate":
                inner = {"a": a, "dates": sorted(r.sample(dates, r.randint(1, max(1, n // 2))))}
            elif a == "RunAfterDate":
                inner = {"a": a, "date": r.choice(dates)}
            elif a == "RunAfterDays":
                inner = {"a": a, "args": [r.randint(0, n + 1)]}
            else:
                k2 = r.randint(1, 6)
                # "all n/offset parameters": the offset only delays the first run, so it may exceed n
                inner = {"a": a, "args": [k2], "kw": {"offset": r.randint(0, k2 - 1) if r.random() < 0.5 else r.randint(0, 2 * k2 + 3)}}
            calls = 2 if (a != "RunAfterDays" and r.random() < 0.3) else 1
            probes.append({"a": "Probe", "id": k, "inner": inner, "calls": calls})
        sub = {"k": "S", "name": "sub", "cls": "Strategy", "fi": False, "how": "list", "children": [], "algos": list(probes)}
        root = {"k": "S", "name": "top", "cls": "Strategy", "fi": False, "how": "list", "children": [sub] if r.random() < 0.5 else [], "algos": list(probes)}
        cfg = {"integer": True, "comm": None, "capital": 1e6, "fi": False, "obs_price": False, "obs_eod": False, "profile": "sched"}
        return {"driver": "engine", "cfg": cfg, "tree": root, "feed": fspec, "probes": probes, "fired": {"clock_" + style: 1}}

    def run(self, bt, plan):
        from .monitors import c12

        sim, exc = drive_engine.run_light(bt, plan, seed=0)
        viol = sim.viol
        if exc is not None:
            viol.append({"check": "c12_exception", "detail": "%s: %s" % (type(exc).__name__, str(exc)[:200]), "flags": {}})
            return dict(viol=viol, fired=plan["fired"], nontrivial=False, info={})
        nj = c12.judge(sim, plan)
        c12.off_index(sim, plan)
        fired = dict(plan["fired"])
        dts = plan["feed"]["dates"]
        import datetime as _dt

        ds = [_dt.datetime.fromisoformat(x) for x in dts]
        if any(a.year != b.year for a, b in zip(ds, ds[1:])):
            fired["period_boundary_year"] = 1
        if any(a.isocalendar()[1] in (52, 53) and b.isocalendar()[1] == 1 for a, b in zip(ds, ds[1:])):
            fired["period_boundary_iso_week_52_53_1"] = 1
        if any(a.date() == b.date() for a, b in zip(ds, ds[1:])):
            fired["intraday"] = 1
        if any((b - a).days > 4 for a, b in zip(ds, ds[1:])):
            fired["calendar_gap"] = 1
        if any(p["calls"] > 1 for p in plan["probes"]):
            fired["dup_invocation"] = 1
        return dict(viol=viol, fired=fired, nontrivial=nj >= 20, info={"booleans_judged": nj, "probes": len(plan["probes"])}, dates=len(dts), steps=nj)

    def owns(self, check):
        return check.startswith("c12_")

    def simplifications(self, plan):
        out = []
        for i in range(len(plan["probes"])):
            ps = plan["probes"][:i] + plan["probes"][i + 1:]
            if ps:
                t = dict(plan["tree"], algos=list(ps), children=[dict(c, algos=list(ps)) for c in plan["tree"]["children"]])
                out.append(dict(plan, probes=ps, tree=t))
        if plan["tree"]["children"]:
            out.append(dict(plan, tree=dict(plan["tree"], children=[])))
        return out


def _gen_flow_stack(r, ids, depth=0):
    """a random stack of spies / SetTemp / Require wired with AlgoStack, Or, Not and run_always"""
    n = r.randint(1, 6 if depth == 0 else 3)
    out = []
    for _ in range(n):
        k = r.random()
        if k < 0.5 or depth >= 2:
            sid = ids[0]
            ids[0] += 1
            ret = None if r.random() < 0.3 else [r.random() < 0.65 for _ in range(r.randint(1, 5))]
            s = {"a": "Spy", "id": sid, "ret": ret}
            kk = r.random()
            if kk < 0.25:
                s["run_always"] = True
            elif kk < 0.35:
                s["run_always"] = "off"  # carries the marker attribute, switched off
            out.append(s)
        elif k < 0.62:
            inner = {"a": "AlgoStack", "algos": _gen_flow_stack(r, ids, depth + 1)}
            out.append({"a": "run_always", "algo": inner} if r.random() < 0.3 else inner)
        elif k < 0.74:
            out.append({"a": "Or", "algos": [x if x["a"] != "run_always" else x["algo"] for x in _gen_flow_stack(r, ids, depth + 1)]})
        elif k < 0.82:
            sid = ids[0]
            ids[0] += 1
            out.append({"a": "Not", "algo": {"a": "Spy", "id": sid, "ret": [r.random() < 0.5 for _ in range(r.randint(1, 4))]}})
        elif k < 0.91:
            out.append({"a": "SetTemp", "set": {"selected": r.choice([[], ["A"], ["A", "B"]])} if r.random() < 0.7 else {"other": [None, 1]}})
        else:
            out.append({"a": "Require", "pred": r.choice(["nonempty", "empty", "true", "false"]), "item": r.choice(["selected", "selected", "missing"]), "if_none": r.random() < 0.5})
    return out


@register
class C13(Spec):
    id = "C13"
    tiers = {"quick": dict(runs=2500, builds=("py", "cy"), wall=75), "thorough": dict(runs=80000, builds=("py", "cy"), wall=1200)}
    rule = (
        "seeded algo programs (stacks up to 3 levels deep of spies whose results are fault-injected per date, run_always placed anywhere incl. on nested stacks, Or, Not, Require on temp entries set by a user algo) are executed by real Strategy.run() "
        "inside Backtest.run() over several dates, on trees with children; the live invocation log must equal a 30-line reference interpreter written from the statement, temp must be empty at the start of every run, perm must persist, own stack before children, each child once; "
        "a second family runs RunIfOutOfBounds behind an oracle wrapper on drifting live portfolios; distinct = plan digest; non-trivial = >= 1 algo_fail fired and >= 2 dates"
    )
    assumptions = ["thin fit (see DESIGN): the truth table itself is seeded program generation; the simulation adds execution inside real Strategy.run over a history and live drifted weights"]

    def gen(self, r, tier, i):
        if i % 4 == 3:
            return self.gen_oob(r, tier)
        n = r.randint(2, 8)
        dates, style = feedmod.gen_dates(r, n, "bday")
        fspec = {"dates": dates, "tickers": ["A", "B"], "prices": [[100.0 + k, 50.0 - k * 0.1] for k in range(n)], "style": style}
        ids = [1]
        stacks = {}

        def mk(name, depth, path):
            st = [{"a": "Spy", "id": 1000 + len(stacks), "ret": None, "first": True}] + _gen_flow_stack(r, ids)
            node = {"k": "S", "name": name, "cls": "Strategy", "fi": False, "how": "list", "children": [], "algos": st}
            full = ">".join(path + (name,))
            stacks[full] = st
            if depth < 2:
                for j in range(r.choice([0, 0, 1, 2])):
                    node["children"].append(mk("c%d%d" % (depth, j), depth + 1, path + (name,)))
            return node

        root = mk("top", 0, ())
        cfg = {"integer": True, "comm": None, "capital": 1e6, "fi": False, "obs_price": False, "obs_eod": False, "profile": "stack"}
        plan = {"driver": "engine", "cfg": cfg, "tree": root, "feed": fspec, "stacks": stacks, "family": "flow", "fired": {}}
        if r.random() < 0.25 and n >= 2:
            # the top strategy's own stack creates one more sub-strategy on some date
            late = [{"a": "Spy", "id": 1900, "ret": None, "first": True}] + _gen_flow_stack(r, ids)
            t0 = r.randint(0, n - 1)
            root["algos"].insert(1, {"a": "Spawn", "t": t0, "name": "late", "stack": late})  # (right behind the opening spy, which never fails)
            plan["spawn"] = {"t": t0, "name": "top>late", "stack": late}
        return plan

    def gen_oob(self, r, tier):
        n = r.randint(4, 14)
        fspec, fired = drive_engine.gen_feed(r, n, r.randint(2, 4), style="bday", faults={}, spread_p=0.0)
        tickers = fspec["tickers"]
        sel = r.sample(tickers, r.randint(1, len(tickers)))
        raw = [r.random() for _ in sel]
        tot = sum(raw) / r.choice([1.0, 0.8])
        w = {t: round(x / tot, 4) for t, x in zip(sel, raw)}
        if r.random() < 0.4:
            # long/short books: the deviation of a short target is relative to a negative weight
            for t in r.sample(sel, r.randint(1, len(sel))):
                w[t] = -w[t]
            fired["short_targets"] = 1
        st = [{"a": "WeighSpecified", "weights": w}]
        cash = r.random() < 0.15
        if cash:
            st.append({"a": "SetTemp", "set": {"cash": 0.1}})
        st.append({"a": "Or", "algos": [{"a": "RunOnDate", "dates": [fspec["dates"][0]]}, {"a": "Wrap", "inner": {"a": "RunIfOutOfBounds", "args": [r.choice([0.01, 0.05, 0.1, 0.3])]}}]})
        st.append({"a": "Rebalance"})
        root = {"k": "S", "name": "top", "cls": "Strategy", "fi": False, "how": "list", "children": [], "algos": st}
        cfg = {"integer": r.random() < 0.5, "comm": None, "capital": 1e6, "fi": False, "obs_price": False, "obs_eod": False, "profile": "oob"}
        return {"driver": "engine", "cfg": cfg, "tree": root, "feed": fspec, "family": "oob", "cash": cash, "fired": fired}

    def run(self, bt, plan):
        from .monitors import c13

        if plan["family"] == "oob":
            mon = {}
            sim = drive_engine.EngineSim(bt, plan, set())
            sim.light = True
            mon = c13.OOBMonitor(sim)
            sim.wrap_monitor = mon
            taps_mod = drive_engine.taps
            taps_mod.install(bt)
            exc = None
            try:
                sim.setup()
                sim.root_live = sim.root
                sim.bkt.run()
            except Exception as e:  # noqa
                exc = e
            finally:
                taps_mod.set_current(None)
            viol = sim.viol
            if exc is not None:
                viol.append({"check": "c13_exception", "detail": "%s: %s" % (type(exc).__name__, str(exc)[:200]), "flags": {"cash_branch": bool(plan.get("cash")), "exc": type(exc).__name__}})
            return dict(viol=viol, fired=sim.fired, nontrivial=mon.judged >= 2, info={"oob_judged": mon.judged}, dates=len(plan["feed"]["dates"]), steps=mon.judged)
        sim = drive_engine.EngineSim(bt, plan, set())
        sim.light = True
        sim.lifecycle = []

        def hook(spy, target, t):
            if target.root is not sim.root:
                return
            if spy.spec.get("first"):
                sim.lifecycle.append((target.full_name, t, [k for k in target.temp], target.perm.get("count", 0)))
                target.perm["count"] = target.perm.get("count", 0) + 1
            target.temp["mark_%d" % spy.spec["id"]] = t

        sim.spy_hook = hook
        drive_engine.taps.install(bt)
        exc = None
        try:
            sim.setup()
            sim.bkt.run()
        except Exception as e:  # noqa
            exc = e
        finally:
            drive_engine.taps.set_current(None)
        viol = sim.viol
        fails = sum(1 for rec in sim.spy_log if rec[3] and not rec[4])
        fired = {"algo_fail": fails}
        if exc is not None:
            viol.append({"check": "c13_exception", "detail": "%s: %s" % (type(exc).__name__, str(exc)[:200]), "flags": {"cash_branch": False, "exc": type(exc).__name__}})
            return dict(viol=viol, fired=fired, nontrivial=False, info={})
        nj = c13.judge_flow(sim, plan)
        return dict(viol=viol, fired=fired, nontrivial=(fails >= 1 and len(plan["feed"]["dates"]) >= 2), info={"stack_runs_judged": nj, "strategies": len(plan["stacks"])}, dates=len(plan["feed"]["dates"]), steps=len(sim.spy_log))

    def owns(self, check):
        return check.startswith("c13_")

    def simplifications(self, plan):
        return []


def _structure_violations(bt, root, spec):
    """sibling names unique; parent / root / members / full_name agree with the structure"""
    out = []
    seen = []

    def walk(node, parent, full):
        seen.append(node)
        if node.root is not root:
            out.append("%s.root is not the tree's root" % full)
        if parent is None:
            if node.parent is not node:
                out.append("root.parent is not itself")
        else:
            if node.parent is not parent:
                out.append("%s.parent is not the node that lists it" % full)
            if parent.children.get(node.name) is not node:
                out.append("%s is not registered under its own name in its parent" % full)
        if node.full_name != full:
            out.append("full_name %r, structure says %r" % (node.full_name, full))
        names = list(node.children.keys())
        if len(names) != len(set(names)):
            out.append("%s has duplicate child names" % full)
        for cn, c in node.children.items():
            if c.name != cn:
                out.append("%s child registered as %r is named %r" % (full, cn, c.name))
            walk(c, node, full + ">" + cn)

    walk(root, None, root.name)
    mem = root.members
    if len(mem) != len(seen) or any(a is not b for a, b in zip(mem, seen)):
        out.append("members (%d) is not the depth-first list of the tree's nodes (%d)" % (len(mem), len(seen)))
    return out


def _eager_twin(tree):
    t = _copy.deepcopy(tree)
    for _p, s in drive_engine.trees.securities(t):
        if s["decl"] in ("str", "lazy"):
            s["decl"] = "obj"
    return t


@register
class C19(Spec):
    id = "C19"
    tiers = {"quick": dict(runs=3000, builds=("py",), wall=75), "thorough": dict(runs=40000, builds=("py", "cy"), wall=1200)}
    rule = (
        "seeded trees are assembled through every constructor path (lists, dicts, strings, lazy objects, nested strategies, parent=), checked structurally, then run by the real Backtest with stock-algo stacks; the fault is lazy_child: a twin run "
        "differs only in that every string / lazy child is constructed up front; node histories must agree to 1e-10 relative (absent node == flat zero rows), a spy at the head of every live stack checks universe.columns == declared tickers (all if none) + one column per sub-strategy, "
        "integer_positions and the commission function must have reached every node incl. ones created mid-run; distinct = plan digest; non-trivial = a lazily declared child was created mid-run and traded"
    )
    assumptions = ["twin histories are compared with a tolerance (children iterate in a different order, so float summation order differs); in whole-unit mode a twin mismatch is counted as inconclusive (an ulp can flip a floor) unless positions agree"]

    def gen(self, r, tier, i):
        if i % 20 == 10:
            # a blotter replayed into a declared universe: the algo addresses the children by name
            plan = drive_engine.gen_replay_plan(r, tier)
            for c in plan["tree"]["children"]:
                c["decl"] = r.choice(["obj", "str", "lazy"])
            plan["tree"]["algos"] = [{"a": "Spy", "id": 900}] + plan["tree"]["algos"]
            plan["seed"] = r.randrange(1 << 30)
            return plan
        plan = drive_engine.gen_engine_plan(r, "mixed", tier) if i % 2 else drive_engine.gen_all_algos_plan(r, tier, stateful=False, random_algos=False)
        # make sure some children are declared lazily
        for _p, s in drive_engine.trees.strategies(plan["tree"]):
            secs = [c for c in s["children"] if c["k"] == "X"]
            if not secs and not any(c["k"] == "S" for c in s["children"]) and r.random() < 0.7:
                names = r.sample(plan["feed"]["tickers"], r.randint(1, len(plan["feed"]["tickers"])))
                s["children"] = [{"k": "X", "name": t, "cls": "Security", "mult": 1.0, "decl": "str"} for t in names]
                drive_engine._restrict(s, names)
                secs = s["children"]
            for c in secs:
                if r.random() < 0.7:
                    c["decl"] = r.choice(["str", "lazy"])
                    if c["decl"] == "str":
                        c["mult"] = 1.0
            if r.random() < 0.5 and s.get("how") == "list":
                s["how"] = r.choice(["dict", "parent", "parent"]) if s["name"] != plan["tree"]["name"] else "dict"
            s["algos"] = [{"a": "Spy", "id": 900}] + [a for a in s.get("algos", []) if a.get("a") not in ("Chaos", "SelectRandomly", "WeighRandomly")]
        # node objects reused as templates: the same Security object is handed to the constructors of several strategies of one
        # tree (each constructor takes its own copy, lazily added or not); two sub-strategies attached with parent= both trade
        # a name declared that way
        subs = [c for c in plan["tree"]["children"] if c["k"] == "S"]
        if len(subs) >= 2 and r.random() < 0.6:
            common = plan["feed"]["tickers"][0]
            for si, sub in enumerate(subs[:2]):
                if not any(c["k"] == "S" for c in sub["children"]):
                    kid = [c for c in sub["children"] if c["k"] == "X" and c["name"] == common]
                    if not kid:
                        kid = [{"k": "X", "name": common, "cls": "Security", "mult": 1.0, "decl": "lazy"}]
                        sub["children"].append(kid[0])
                    kid[0].update(decl="lazy", mult=1.0, cls="Security")
                    kid[0].pop("fi_flag", None)
                    sub["how"] = "parent"
                    # (the second one stays 40% in cash: two sub-strategies with the same definition over the same names have
                    # indices that agree to the last bits, and a parent ranking them - SelectN, SelectMomentum - then picks by
                    # rounding noise, which differs between the lazy and the eager twin; thorough tier, 2 runs in 80 000)
                    sub["algos"] = [{"a": "Spy", "id": 900}, drive_engine.sched_spec(r, plan["feed"]["dates"]), {"a": "SelectAll"}, {"a": "WeighEqually"}] + ([{"a": "ScaleWeights", "args": [0.6]}] if si else []) + [{"a": "Rebalance"}]
            plan["tree"]["share_templates"] = True
            plan.setdefault("fired", {})["security_objects_reused_as_templates"] = 1
        # a third level: a sub-strategy is pushed one level down under a new middle strategy that keeps its name (so whatever the
        # top allocates to it still applies) and passes everything on - settings pushed from the top must travel two levels
        if subs and r.random() < 0.35:
            old = r.choice(subs)
            inner = dict(old, name="deep")
            mid = {"k": "S", "name": old["name"], "cls": "Strategy", "fi": False, "how": r.choice(["list", "dict", "parent"]), "children": [inner],
                   "algos": [{"a": "Spy", "id": 900}, drive_engine.sched_spec(r, plan["feed"]["dates"]), {"a": "SelectAll"}, {"a": "WeighEqually"}, {"a": "Rebalance"}]}
            plan["tree"]["children"][plan["tree"]["children"].index(old)] = mid
            plan.setdefault("fired", {})["three_levels"] = 1
        if plan["feed"].get("bidoffer") and len(plan["feed"]["dates"]) >= 4 and r.random() < 0.35:
            # the top strategy grows a sub-strategy of its own making on an early date, set up with spreads of its own
            plan["tree"]["algos"].insert(1, {"a": "Spawn", "t": r.randint(0, 1), "name": "late", "stack": [], "own_bidoffer": r.choice([20.0, 0.0])})
            plan.setdefault("fired", {})["sub_strategy_created_mid_run_with_own_data"] = 1
        # a mixed state before the push: some sub-tree was switched to the other position mode by hand
        inner_strats = [s2 for p2, s2 in drive_engine.trees.strategies(plan["tree"]) if len(p2) > 1]
        if inner_strats and r.random() < 0.3:
            r.choice(inner_strats)["pre_int"] = r.random() < 0.5
            plan.setdefault("fired", {})["preset_position_mode_on_subtree"] = 1
        plan["cfg"]["obs_eod"] = False
        if plan["cfg"].get("comm") is None and r.random() < 0.5:
            plan["cfg"]["comm"] = {"kind": "prop", "rate": 0.001}
        if plan["cfg"].get("comm") and plan["cfg"]["comm"]["kind"] in ("fixed", "pershare"):
            # a fee that is non-zero at size 0 turns an ulp of summation-order noise in a rebalancing delta (exactly 0 in one
            # twin) into a real fee-funding trade: use cost models that are continuous at zero for the twin comparison
            plan["cfg"]["comm"] = {"kind": "tiered", "r1": 0.002, "r2": 0.0005, "thr": 1e4}
        plan["seed"] = r.randrange(1 << 30)
        return plan

    def _run(self, bt, plan, cols):
        sim = drive_engine.EngineSim(bt, plan, set())
        sim.light = True

        def hook(spy, target, t):
            if spy.spec["id"] == 900 and target.root is sim.root:
                cols.append((target.full_name, t, list(target.universe.columns)))

        sim.spy_hook = hook
        drive_engine.taps.install(bt)
        rng.pin_globals(plan["seed"])
        exc = None
        try:
            sim.setup()
            sim.struct = _structure_violations(bt, sim.root, plan["tree"])
            sim.bkt.run()
        except Exception as e:  # noqa
            exc = e
        finally:
            drive_engine.taps.set_current(None)
        return sim, exc

    def run(self, bt, plan):
        import numpy as np

        viol = []
        fired = {}
        info = {}
        cols = []
        lazy, lexc = self._run(bt, plan, cols)
        if lazy.root is None:
            return dict(viol=[{"check": "c19_exception", "detail": "construction failed: %r" % (lexc,), "flags": {}}], fired={}, nontrivial=False, info={})
        for s in getattr(lazy, "struct", []):
            viol.append({"check": "c19_structure", "detail": s, "flags": {}})
            break
        # universe scoping seen from inside the running strategies
        tick = plan["feed"]["tickers"]
        exp_cols = {}
        for p, s in drive_engine.trees.strategies(plan["tree"]):
            secs = [c["name"] for c in s["children"] if c["k"] == "X"]
            subs = [c["name"] for c in s["children"] if c["k"] == "S"]
            if secs:
                exp_cols[">".join(p)] = [(set(secs) & set(tick)) | set(subs)]
            elif not subs:
                exp_cols[">".join(p)] = [set(tick)]
            else:
                # only sub-strategies: children passed to the constructor -> it declared its children and no ticker among
                # them (documented: "no other ticker should be used"); children that attached themselves later with
                # parent= -> the strategy itself declared nothing -> all tickers
                passed = [c for c in s["children"] if c["k"] == "S" and not (c.get("how") == "parent" and c["cls"] != "FixedIncomeStrategy")]
                exp_cols[">".join(p)] = [set(subs)] if passed else [set(subs) | set(tick)]
        spawned = [a for a in plan["tree"].get("algos", []) if a.get("a") == "Spawn"]
        for name, t, cl in cols:
            if spawned and name == plan["tree"]["name"] and t >= spawned[0]["t"] and spawned[0]["name"] in cl:
                # (one more column for the sub-strategy the top created itself; on the creation date the spy runs before it exists)
                cl = [c for c in cl if c != spawned[0]["name"]]
                if t > spawned[0]["t"]:
                    fired["universe_column_of_spawned_child"] = 1
            elif spawned and name == plan["tree"]["name"] and t > spawned[0]["t"]:
                viol.append({"check": "c19_universe", "detail": "date #%d: %s has no universe column for the sub-strategy %s it created on date #%d" % (t, name, spawned[0]["name"], spawned[0]["t"]), "flags": {"spawned": True}})
                break
            if set(cl) not in exp_cols[name] or len(cl) != len(set(cl)):
                viol.append({"check": "c19_universe", "detail": "date #%d: %s sees universe columns %s, declared %s" % (t, name, cl, sorted(exp_cols[name][0])), "flags": {}})
                break
        # settings pushed from the top reach every node, also those created mid-run
        want_int = plan["cfg"]["integer"]
        for n in lazy.root.members:
            if bool(n.integer_positions) != bool(want_int):
                viol.append({"check": "c19_settings", "detail": "%s has integer_positions=%r, the backtest was built with %r" % (n.full_name, n.integer_positions, want_int), "flags": {"setting": "integer_positions"}})
                break
            if hasattr(n, "capital") and lazy.commfn is not None and n.commission_fn is not lazy.commfn:
                viol.append({"check": "c19_settings", "detail": "%s does not use the commission function given to the backtest" % n.full_name, "flags": {"setting": "commission"}})
                break
        # lazy vs eager twin
        eager_plan = dict(plan, tree=_eager_twin(plan["tree"]))
        eager, eexc = self._run(bt, eager_plan, [])
        created = [n for n in lazy.root.members if not hasattr(n, "capital")]
        declared_lazy = {">".join(p) for p, s in drive_engine.trees.securities(plan["tree"]) if s["decl"] in ("str", "lazy")}
        lazily_traded = [n for n in created if n.full_name in declared_lazy and (n.data["position"].to_numpy() != 0).any()]
        if lazily_traded:
            fired["lazy_child"] = len(lazily_traded)
        if (lexc is None) != (eexc is None):
            sizing = [e for e in (lexc, eexc) if e is not None and any(str(e).startswith(st) for st in drive_tree.SIZING_STEMS)]
            if sizing:
                viol.append({"check": "C10.sizing_exception", "detail": str(sizing[0])[:80], "flags": {"stem": str(sizing[0])[:24]}})
            else:
                viol.append({"check": "c19_lazy_vs_eager", "detail": "lazy run %s, eager run %s" % ("raised %r" % (lexc,) if lexc else "completed", "raised %r" % (eexc,) if eexc else "completed"), "flags": {"kind": "exception"}})
        elif lexc is None:
            ha = drive_engine.histories(lazy.root)
            hb = drive_engine.histories(eager.root)
            worst = None
            posdiff = False
            # the twins differ in the last bits of sums (children iterate in another order); an iterative optimiser in a stack
            # (mean-variance, risk parity) turns last-bit differences of its inputs into 1e-8-level differences of its weights
            iterative = any(a.get("a") in ("WeighMeanVar", "WeighERC") or (a.get("algo") or {}).get("a") in ("WeighMeanVar", "WeighERC") for _p2, s2 in drive_engine.trees.strategies(plan["tree"]) for a in s2.get("algos", []))
            twin_rel = 1e-6 if iterative else 1e-10
            # ... and on an ill-conditioned problem (a long window, an optimum on the bounds) into 1e-3-level ones (thorough tier:
            # SLSQP returned -0.0009 / 1.0009 for one twin and 0 / 1.0009 for the other): once such a stack may have run - after
            # the date of the RunAfterDate in front of it - a numeric difference above the band is not judged; up to that date
            # the twins are held to 1e-10 like any other
            pre_rows = len(plan["feed"]["dates"]) + 1
            if iterative:
                for _p2, s2 in drive_engine.trees.strategies(plan["tree"]):
                    st2 = s2.get("algos", [])
                    if any(a.get("a") in ("WeighMeanVar", "WeighERC") or (a.get("algo") or {}).get("a") in ("WeighMeanVar", "WeighERC") for a in st2):
                        gate = [a["date"] for a in st2 if a.get("a") == "RunAfterDate"]
                        first = (plan["feed"]["dates"].index(gate[0]) + 1) if gate and gate[0] in plan["feed"]["dates"] else 0
                        pre_rows = min(pre_rows, first)  # rows 0 .. first (pre-start row + dates 0 .. first-1) precede its first run
            amplified = False
            gscale = max(1.0, float(np.nanmax(np.abs(lazy.root.data["value"].to_numpy(dtype=float)))))
            for name in sorted(set(ha) | set(hb)):
                ca, cb = ha.get(name, {}), hb.get(name, {})
                for c in sorted(set(ca) | set(cb)):
                    x, y = ca.get(c), cb.get(c)
                    if x is None or y is None:
                        z = x if x is not None else y
                        x, y = z, np.zeros_like(z)
                    if x.shape != y.shape:
                        worst = (name, c, "length")
                        break
                    scale = max(gscale, float(np.nanmax(np.abs(np.concatenate([x, y])))) if len(x) else gscale)
                    d = np.abs(np.nan_to_num(x) - np.nan_to_num(y))
                    if iterative and len(d):
                        over = d > np.where(np.arange(len(d)) <= pre_rows, 1e-10, twin_rel) * scale
                        if over.any() and int(np.argmax(over)) > pre_rows:
                            amplified = True
                            continue
                        if over.any():
                            d = np.where(np.arange(len(d)) <= pre_rows, d, 0.0)
                            i = int(d.argmax())
                            if c == "position":
                                posdiff = True
                            if worst is None:
                                worst = (name, c, "row %d: %r (lazy) vs %r (eager)" % (i, x[i], y[i]))
                        continue
                    if len(d) and float(d.max()) > twin_rel * scale:
                        i = int(d.argmax())
                        if c == "position":
                            posdiff = True
                        if worst is None:
                            worst = (name, c, "row %d: %r (lazy) vs %r (eager)" % (i, x[i], y[i]))
                if worst and worst[2] == "length":
                    break
            if worst is None and amplified:
                info["inconclusive_twin_behind_iterative_optimiser"] = 1
            if worst is not None:
                if want_int and posdiff:
                    info["inconclusive_integer_flip"] = 1
                else:
                    viol.append({"check": "c19_lazy_vs_eager", "detail": "%s.%s %s" % worst, "flags": {"kind": "history", "integer": bool(want_int)}})
        used = set()
        for _p, s in drive_engine.trees.strategies(plan["tree"]):
            for a in s.get("algos", []):
                for x in [a] + a.get("algos", []) + ([a["algo"]] if "algo" in a else []) + ([a["inner"]] if "inner" in a else []):
                    used.add(x.get("a"))
                    for y in x.get("algos", []):
                        used.add(y.get("a"))
        for v in viol:
            if v["check"] == "c19_lazy_vs_eager":
                v["flags"]["uses_RunIfOutOfBounds"] = "RunIfOutOfBounds" in used
                v["flags"]["uses_PTE_Rebalance"] = "PTE_Rebalance" in used
                v["flags"]["uses_ReplayTransactions"] = "ReplayTransactions" in used
                v["flags"]["uses_SelectTypes"] = "SelectTypes" in used
        return dict(viol=viol, fired=fired, nontrivial=bool(lazily_traded), info=info, dates=len(plan["feed"]["dates"]) * 2, steps=len(cols))

    def owns(self, check):
        return check.startswith("c19_")

    def simplifications(self, plan):
        return drive_engine.simplifications(plan)


@register
class C18(Spec):
    id = "C18"
    tiers = {"quick": dict(runs=3000, builds=("py",), wall=80), "thorough": dict(runs=30000, builds=("py", "cy"), wall=1200)}
    rule = (
        "finished real backtests of every shape (flat / nested, tickers shared by several sub-strategies, runs without trades, shorts, bid/offer on or off, flows) - every report (weights, security_weights + cash fractions, positions, transactions, turnover, Herfindahl, Result.prices) is recomputed from the node histories; "
        "costless runs are additionally replayed: get_transactions() is fed to ReplayTransactions on the same feed and positions / values must come back; distinct = plan digest; non-trivial = the run traded"
    )
    assumptions = ["thin fit for the formula part (a pure function of a finished history, said in DESIGN); the replay part is the family's own 'replay the recorded history, reach the same state'", "replay is judged for runs without commission (the transaction list does not carry fees)"]

    def gen(self, r, tier, i):
        k = i % 5
        if k == 3 and (i // 5) % 2 == 0:
            # a fixed-income book: every security type (notional accounting decides the weights)
            plan = drive_engine.gen_fi_plan(r, tier)
            plan["cfg"]["obs_eod"] = False
            # hedge instruments held in the book too (their notional is zero by definition, their market value is not)
            hedges = [x["name"] for _p, x in drive_engine.trees.securities(plan["tree"]) if x["cls"] in ("HedgeSecurity", "CouponPayingHedgeSecurity")]
            tw = plan["extra"]["tw"]
            for h in hedges:
                if h not in tw["cols"]:
                    tw["cols"].append(h)
                    for row in tw["data"]:
                        row.append(r.choice([0.1, -0.1, 0.05, None]))
                    plan["fired"]["hedge_instrument_held"] = 1
        else:
            plan = drive_engine.gen_engine_plan(r, "mixed", tier)
        for _p, s in drive_engine.trees.strategies(plan["tree"]):
            s["algos"] = [a for a in s.get("algos", []) if a.get("a") != "Chaos"]
        if k == 4:
            # securities declared as objects of other node classes than the default one created from a string
            for _p, x in drive_engine.trees.securities(plan["tree"]):
                if x.get("decl") == "obj" and x.get("cls") == "Security" and r.random() < 0.6:
                    x["cls"] = r.choice(["SecurityBase", "HedgeSecurity"])
        if k == 0:
            plan["cfg"]["comm"] = None
        if k == 1:
            # shorts
            for _p, s in drive_engine.trees.strategies(plan["tree"]):
                for a in s["algos"]:
                    if a.get("a") == "WeighSpecified":
                        ws = a["weights"]
                        for n in list(ws)[:1]:
                            if not any(c["name"] == n and c["k"] == "S" for c in s["children"]):
                                ws[n] = -abs(ws[n])
        if k == 2:
            # a run that never trades
            plan["tree"]["algos"] = [{"a": "RunAfterDate", "date": "2100-01-01T00:00:00"}] + plan["tree"]["algos"]
            for c in plan["tree"]["children"]:
                if c["k"] == "S":
                    c["algos"] = [{"a": "RunAfterDate", "date": "2100-01-01T00:00:00"}] + c.get("algos", [])
        plan["cfg"]["obs_eod"] = False
        plan["seed"] = r.randrange(1 << 30)
        return plan

    def run(self, bt, plan):
        from .monitors import c18

        sim, exc = drive_engine.run_light(bt, plan, seed=plan["seed"])
        if exc is not None or sim.root is None:
            return dict(viol=[], fired={}, nontrivial=False, info={"aborted_" + type(exc).__name__: 1})
        viol = []
        try:
            tx = c18.judge(sim, viol)
        except Exception as e:  # noqa
            import traceback

            viol.append({"check": "c18_report_raises", "detail": "%s: %s | %s" % (type(e).__name__, str(e)[:150], traceback.format_exc()[-300:].replace("\n", " / ")), "flags": {"exc": type(e).__name__}})
            tx = None
        fired = {}
        root = sim.root
        secs = [m for m in root.members if not hasattr(m, "capital")]
        traded = any((s.positions.to_numpy() != 0).any() for s in secs)
        names = [s.name for s in secs]
        if len(names) != len(set(names)):
            fired["shared_ticker"] = 1
        if not traded:
            fired["no_trades"] = 1
        if any((s.positions.to_numpy() < 0).any() for s in secs):
            fired["shorts"] = 1
        if plan["feed"].get("bidoffer") is not None:
            fired["bidoffer"] = 1
        flows = root.flows.to_numpy(dtype=float)
        if tx is not None and plan["cfg"].get("comm") is None and not root.bankrupt and not (flows[1:] != 0).any():
            if c18.replay(sim, plan, tx, viol, drive_engine.run_light):
                fired["log_replay"] = 1
        return dict(viol=viol, fired=fired, nontrivial=traded, info={}, dates=len(plan["feed"]["dates"]), steps=len(secs))

    def owns(self, check):
        return check.startswith("c18_")

    def simplifications(self, plan):
        return drive_engine.simplifications(plan)


@register
class C20(Spec):
    id = "C20"
    tiers = {"quick": dict(runs=5000, builds=("py",), wall=75), "thorough": dict(runs=60000, builds=("py", "cy"), wall=1200)}
    rule = (
        "fixed-income trees (nested, multipliers != 1) with seeded unit-risk tables (missing securities, 1-3 measures), UpdateRisk(history=d), HedgeRisks (square / pseudo-inverse) and close / roll tables whose dates are timers on the simulated clock "
        "(calendar gaps so that the date falls between ticks, prices absent after maturity); spies placed after the algos compare node.risk / node.risks with unit x position x multiplier summed over the tree, hedged measures with zero (least-squares normal equations for pseudo), "
        "positions after close / roll dates with the tables; distinct = plan digest; non-trivial = a hedge, close or roll actually happened"
    )
    assumptions = ["the linear algebra of the hedge is a pure function (moderate fit, see DESIGN); timers, once-only effects and tree aggregation are judged over the simulated history"]

    def gen(self, r, tier, i):
        fam = ["hedge", "close", "roll", "active"][i % 4]
        ndates = r.randint(5, 14)
        ntick = r.randint(3, 6)
        fspec, fired = drive_engine.gen_feed(r, ndates, ntick, style=r.choice(["bday", "gaps", "gaps"]), faults={}, spread_p=0.2, lo=80.0, hi=120.0)
        dates, tickers = fspec["dates"], fspec["tickers"]
        fspec["coupons"] = [[r.choice([0.0, 0.0, 0.01]) for _ in tickers] for _ in dates]
        mult = {t: r.choice([1.0, 1.0, 10.0, 0.5, 100.0]) for t in tickers}
        cls = {t: r.choice(["CouponPayingSecurity", "CouponPayingSecurity", "Security", "FixedIncomeSecurity"]) for t in tickers}
        extra = {"notl": {"kind": "series", "data": [r.choice([1000.0, 5000.0]) for _ in dates]}}
        measures = ["m%d" % k for k in range(r.randint(1, 3))]
        ur = {}
        for m in measures:
            cols = [t for t in tickers if r.random() < 0.85] or tickers[:1]
            ur[m] = {"cols": cols, "data": [[round(r.uniform(-2, 2), 3) for _ in cols] for _ in dates]}
            if r.random() < 0.3:
                # this measure's table starts earlier than the prices (each table has its own calendar)
                import datetime as _dtp

                d0 = _dtp.datetime.fromisoformat(dates[0])
                kpre = r.randint(1, 3)
                ur[m]["pre"] = [[(d0 - _dtp.timedelta(days=3 * (kpre - j))).isoformat(), [round(r.uniform(-2, 2), 3) for _ in cols]] for j in range(kpre)]
                fired["unit_risk_table_with_own_calendar"] = 1
        extra["unit_risk"] = {"kind": "unit_risk", "measures": ur}
        hist = r.randint(0, 3)
        upd = [{"a": "UpdateRisk", "args": [m], "kw": {"history": hist}} for m in measures]
        root = {"k": "S", "name": "fi", "cls": "FixedIncomeStrategy", "fi": True, "how": "list", "children": []}
        nested = fam == "hedge" and r.random() < 0.4
        body = tickers[: max(1, len(tickers) - len(measures))] if fam == "hedge" else tickers
        hedges = tickers[len(body):]
        # the documented split set-up: the hedges live in a strategy of their own, which hedges the risk of the (separately tracked)
        # book in addition to the hedges it already carries - on several dates, so that later runs start from earlier hedges
        split = fam == "hedge" and not nested and len(hedges) >= 1 and ndates >= 5 and r.random() < 0.35
        if fam == "hedge":
            for t in hedges:
                cls[t] = r.choice(["HedgeSecurity", "CouponPayingHedgeSecurity"])
                if split:
                    # (a fixed-income strategy holding nothing but zero-notional hedge securities has no base for its price:
                    # the separate hedge strategy holds instruments that carry notional)
                    cls[t] = r.choice(["CouponPayingSecurity", "FixedIncomeSecurity", "Security"])
        open_w = {}
        sel = r.sample(body, r.randint(1, len(body)))
        raw = [r.random() for _ in sel]
        tot = sum(raw)
        for t, x in zip(sel, raw):
            open_w[t] = round(x / tot, 4) * r.choice([1, 1, -1])
        opener = [{"a": "RunOnDate", "dates": [dates[0]]}, {"a": "SetNotional", "args": ["notl"]}, {"a": "WeighSpecified", "weights": open_w}, {"a": "Rebalance"}]
        secs = lambda names: [{"k": "X", "name": t, "cls": cls[t], "mult": mult[t], "decl": r.choice(["obj", "obj", "lazy"])} for t in names]  # noqa: E731
        if nested:
            # (a sub-strategy's stack also runs in its paper copy on the synthetic pre-start row: gate it by the calendar)
            sub = {"k": "S", "name": "book", "cls": "FixedIncomeStrategy", "fi": True, "how": "list", "children": secs(body), "algos": [{"a": "RunDaily", "kw": {"run_on_last_date": True}}] + upd + opener}
            root["children"] = [sub] + secs(hedges)
            st = list(upd)
        elif split:
            sub = {"k": "S", "name": "book", "cls": "FixedIncomeStrategy", "fi": True, "how": "list", "children": secs(body), "algos": [{"a": "RunDaily", "kw": {"run_on_last_date": True}}] + upd + opener}
            hsub = {"k": "S", "name": "hbook", "cls": "FixedIncomeStrategy", "fi": True, "how": "list", "children": secs(hedges), "algos": []}
            root["children"] = [sub, hsub]
            st = []
        else:
            root["children"] = secs(tickers)
            st = []
        plan_x = {}
        if fam == "hedge":
            pseudo = r.random() < 0.4
            hs = hedges if not pseudo else (hedges if r.random() < 0.5 else hedges[:1] or hedges)
            if not hs:
                hs = [body[-1]]
            if not pseudo and len(hs) != len(measures):
                pseudo = True
            st2 = [] if nested else [{"a": "Or", "algos": [{"a": "AlgoStack", "algos": opener}, {"a": "RunDaily"}]}]
            if split:
                # (the book trades on the first date only, after the root refreshed the risks: hedge dates come later)
                hdates = sorted(r.sample(dates[1:], r.randint(2, len(dates) - 1)))
                hsub["algos"] = [{"a": "RunDaily", "kw": {"run_on_last_date": True}}, {"a": "RunOnDate", "dates": hdates}] + upd + [{"a": "SelectThese", "args": [hs], "kw": {"include_no_data": True}}, {"a": "HedgeRisksOf", "measures": measures, "pseudo": pseudo, "book": "book"}, {"a": "Spy", "id": 7}]
                st = upd + [{"a": "Spy", "id": 1}]
                fired["hedge_strategy_separate_from_book"] = 1
            else:
                st = st + st2 + upd + [{"a": "Spy", "id": 1}, {"a": "RunOnDate", "dates": sorted(r.sample(dates, r.randint(1, len(dates))))}, {"a": "SelectThese", "args": [hs], "kw": {"include_no_data": True}}, {"a": "HedgeRisks", "measures": measures, "pseudo": pseudo}] + upd + [{"a": "Spy", "id": 2}]
            plan_x = {"hedges": hs, "pseudo": pseudo}
        else:
            evd = sorted(r.sample(range(1, ndates), r.randint(1, min(3, ndates - 1))))
            tgt_names = r.sample(sel, min(len(sel), len(evd)))
            import datetime as _dt

            def between(k):
                # a table date that falls between two ticks (or on one)
                a = _dt.datetime.fromisoformat(dates[k - 1])
                b = _dt.datetime.fromisoformat(dates[k])
                return (a + (b - a) * r.choice([0.5, 1.0, 1.0])).isoformat() if b > a else dates[k]

            active_roll = fam == "active" and r.random() < 0.5
            # both schedules on one strategy: perm['closed'] and perm['rolled'] are both populated when SelectActive runs
            active_both = fam == "active" and len(tgt_names) >= 2 and len(evd) >= 2 and r.random() < 0.4
            tab2 = None
            if active_both:
                active_roll = False
                others = [t for t in tickers if t not in tgt_names] or None
                if others is None:
                    active_both = False
                else:
                    h = r.randint(1, len(tgt_names) - 1)
                    roll_names, roll_evd = tgt_names[h:], evd[h : len(tgt_names)]
                    tgt_names, evd = tgt_names[:h], evd[:h]
                    tab2 = {"kind": "table", "index": roll_names, "cols": ["date", "target", "factor"], "data": [[between(k), r.choice(others), r.choice([1.0, 0.5, 2.0, 1.25])] for k in roll_evd], "datecols": ["date"]}
                    extra["rd"] = tab2
                    fired["close_and_roll_schedules"] = 1
            if fam in ("close", "active") and not active_roll:
                tab = {"kind": "table", "index": tgt_names, "cols": ["date"], "data": [[between(k)] for k in evd[: len(tgt_names)]], "datecols": ["date"]}
                if fam == "active" and r.random() < 0.5:
                    # matured before the data starts: flat when its close date passes, must still never be selected
                    import datetime as _dtm

                    tab["data"][0] = [(_dtm.datetime.fromisoformat(dates[0]) - _dtm.timedelta(days=r.choice([1, 30]))).isoformat()]
                    evd = [ndates] + evd[1:]  # (its quotes stay: nothing is blanked after index ndates)
                    fired["matured_before_start"] = 1
                extra["cd"] = tab
                head = [{"a": "ClosePositionsAfterDates", "args": ["cd"]}, {"a": "Spy", "id": 3}]
                if tab2 is not None:
                    head = (head + [{"a": "RollPositionsAfterDates", "args": ["rd"]}]) if r.random() < 0.5 else ([{"a": "RollPositionsAfterDates", "args": ["rd"]}] + head)
                # prices disappear after maturity (the position is closed by then)
                for name, k in zip(tgt_names, evd):
                    j = tickers.index(name)
                    for i2 in range(k + 1, ndates):
                        if r.random() < 0.5:
                            fspec["prices"][i2][j] = None
                            fspec["coupons"][i2][j] = 0.0
            else:
                others = [t for t in tickers if t not in tgt_names] or tickers
                tab = {"kind": "table", "index": tgt_names, "cols": ["date", "target", "factor"], "data": [[between(k), r.choice(others), r.choice([1.0, 0.5, 2.0, 1.25])] for k in evd[: len(tgt_names)]], "datecols": ["date"]}
                if len(tab["data"]) >= 2 and r.random() < 0.4:
                    # two matured positions rolling into one target on the same date: their converted quantities add up
                    tab["data"][1][0] = tab["data"][0][0]
                    tab["data"][1][1] = tab["data"][0][1]
                    fired["two_rolls_one_target"] = 1
                extra["rd"] = tab
                head = [{"a": "RollPositionsAfterDates", "args": ["rd"]}, {"a": "Spy", "id": 4}]
            if fam == "active":
                st = head + upd + [{"a": "SetNotional", "args": ["notl"]}, {"a": "SelectAll"}, {"a": "SelectActive"}, {"a": "Spy", "id": 5}, {"a": "WeighEqually"}, {"a": "Rebalance"}, {"a": "Spy", "id": 6}]
            else:
                st = head + upd + [{"a": "Spy", "id": 1}] + opener
            plan_x = {"table": tab}
            if tab2 is not None:
                plan_x["table2"] = tab2
        root["algos"] = st
        cfg = {"integer": False, "comm": None, "capital": 0.0, "fi": True, "obs_price": False, "obs_eod": False, "profile": "risk_" + fam}
        return {"driver": "engine", "cfg": cfg, "tree": root, "feed": fspec, "extra": extra, "fam": fam, "measures": measures, "hist": hist, "x": plan_x, "fired": fired, "mult": mult}

    def run(self, bt, plan):
        import datetime as _dt

        import numpy as np

        sim = drive_engine.EngineSim(bt, plan, set())
        sim.light = True
        viol = sim.viol
        fired = {}
        feed = sim.feed
        measures = plan["measures"]
        urs = plan["extra"]["unit_risk"]["measures"]
        snaps = []

        def unit(m, name, t):
            fr = urs[m]
            if name not in fr["cols"]:
                return 0.0
            return fr["data"][t][fr["cols"].index(name)]

        def expected_risk(node, m, t):
            if not hasattr(node, "capital"):
                return 0.0 if abs(node.position) < 1e-16 else unit(m, node.name, t) * node.position * node.multiplier
            return sum(expected_risk(c, m, t) for c in node.children.values())

        def gross_risk(node, m, t):
            # (a hedged book sums large offsetting terms to ~0: the rounding of that sum scales with the terms, not with the result)
            if not hasattr(node, "capital"):
                return abs(unit(m, node.name, t) * node.position * node.multiplier)
            return sum(gross_risk(c, m, t) for c in node.children.values())

        def check_risk(target, t, where):
            depth = {}

            def walk(n, d):
                depth[n.full_name] = d
                for c in n.children.values():
                    walk(c, d + 1)

            walk(target, 0)
            for n in target.members:
                if not hasattr(n, "risk"):
                    sim.violation("c20_risk", "%s has no risk attribute after UpdateRisk (%s)" % (n.full_name, where), {})
                    return False
                for m in measures:
                    e = expected_risk(n, m, t)
                    g = n.risk.get(m)
                    if g is None or not (abs(g - e) <= 1e-9 * (1 + abs(e)) + 1e-12 * gross_risk(n, m, t)):
                        sim.violation("c20_risk", "%s risk[%s]=%r %s on date #%d, unit x position x multiplier summed over the subtree = %r" % (n.full_name, m, g, where, t, e), {"sec": not hasattr(n, "capital")})
                        return False
                has_hist = hasattr(n, "risks")
                if has_hist != (depth[n.full_name] < plan["hist"]):
                    # depth counts from the strategy that runs UpdateRisk: only judged when the root alone runs it
                    if target is sim.root and not nested_upd:
                        sim.violation("c20_risk_history", "%s %s a risks history although history depth is %d and the node sits at depth %d" % (n.full_name, "has" if has_hist else "lacks", plan["hist"], depth[n.full_name]), {})
                        return False
                elif has_hist and target is sim.root:
                    for m in measures:
                        row = n.risks.loc[target.now, m]
                        if not (abs(row - n.risk[m]) <= 1e-9 * (1 + abs(row))):
                            sim.violation("c20_risk_history", "%s risks[%s] row of the current date is %r, risk is %r" % (n.full_name, m, row, n.risk[m]), {})
                            return False
            return True

        state = {"pre": None, "closed": {}, "rolled": {}}
        nested_upd = any(any(a.get("a") == "UpdateRisk" for a in c.get("algos", [])) for c in plan["tree"]["children"] if c["k"] == "S")

        def judge_hedge(post, pre, t):
            hs = plan["x"]["hedges"]
            J = np.array([[unit(m, s, t) * plan["mult"][s] for m in measures] for s in hs])
            scale = 1e-7 * (1 + np.abs(pre).max() + np.abs(post).max())
            if not plan["x"]["pseudo"]:
                if np.abs(post).max() > scale * max(1.0, np.linalg.cond(J)):
                    sim.violation("c20_hedge", "after HedgeRisks with %d independent instruments the strategy's risk is %s (was %s)" % (len(hs), post.tolist(), pre.tolist()), {"pseudo": False})
            else:
                g = J.dot(post)  # normal equations of the least-squares problem
                if np.abs(g).max() > scale * (1 + np.abs(J).max() ** 2) * 10:
                    sim.violation("c20_hedge", "after pseudo-inverse HedgeRisks the residual risk %s is not least-squares minimal (J.r = %s)" % (post.tolist(), g.tolist()), {"pseudo": True})

        def hook(spy, target, t):
            if target.root is sim.root and spy.spec["id"] == 7:
                # the hedge strategy just hedged the book plus its own earlier hedges: the combined risk (from the positions
                # themselves, unit x position x multiplier over the whole tree) is what must be neutral
                fired["hedge"] = fired.get("hedge", 0) + 1
                fired["hedge_of_separate_book"] = fired.get("hedge_of_separate_book", 0) + 1
                post = np.array([expected_risk(sim.root, m, t) for m in measures])
                pre = np.array([state["pre"][m] for m in measures]) if state["pre"] else post
                judge_hedge(post, pre, t)
                return
            if target.root is not sim.root or target is not sim.root:
                return
            sid = spy.spec["id"]
            if sid == 1:
                if check_risk(target, t, "after UpdateRisk"):
                    state["pre"] = {m: target.risk[m] for m in measures}
            elif sid == 2:
                fired["hedge"] = fired.get("hedge", 0) + 1
                if not check_risk(target, t, "after HedgeRisks+UpdateRisk"):
                    return
                post = np.array([target.risk[m] for m in measures])
                pre = np.array([state["pre"][m] for m in measures]) if state["pre"] else post
                judge_hedge(post, pre, t)
            elif sid in (3, 4, 5, 6):
                snaps.append((sid, t, {n.name: n.position for n in target.members if not hasattr(n, "capital")}, list(target.temp.get("selected", [])) if sid == 5 else None))

        sim.spy_hook = hook
        drive_engine.taps.install(bt)
        exc = None
        try:
            sim.setup()
            sim.bkt.run()
        except Exception as e:  # noqa
            exc = e
        finally:
            drive_engine.taps.set_current(None)
        if exc is not None:
            msg = str(exc)
            if "Singular matrix" in msg or "nan hedge notional" in msg:
                return dict(viol=viol, fired=fired, nontrivial=False, info={"singular_jacobian": 1})
            viol.append({"check": "c20_exception", "detail": "%s: %s" % (type(exc).__name__, msg[:200]), "flags": {"fam": plan["fam"], "exc": type(exc).__name__}})
            return dict(viol=viol, fired=fired, nontrivial=False, info={})
        # ---- close / roll tables against the recorded positions
        dates = [_dt.datetime.fromisoformat(d) for d in plan["feed"]["dates"]]
        fam = plan["fam"]
        root = sim.root
        pos = {}
        for n in root.members:
            if not hasattr(n, "capital"):
                pos[n.name] = n.positions.to_numpy(dtype=float)[1:]
        tabs = [plan["x"][k] for k in ("table", "table2") if k in plan["x"]] if fam in ("close", "active") else []
        for tab in tabs:
            if fam == "active" and "target" in tab["cols"]:
                for sid, t, _p, selected in snaps:
                    if sid == 5:
                        for name, row in zip(tab["index"], tab["data"]):
                            if dates[t] >= _dt.datetime.fromisoformat(row[0]) and name in selected:
                                viol.append({"check": "c20_select_active", "detail": "%s was rolled after %s but SelectActive still selects it on %s" % (name, row[0], dates[t]), "flags": {"table": "roll"}})
                                break
                        fired["active_after_roll"] = 1
            else:
                for name, (d,) in zip(tab["index"], tab["data"]):
                    D = _dt.datetime.fromisoformat(d)
                    ks = [k for k, x in enumerate(dates) if x >= D]
                    if not ks or name not in pos:
                        continue
                    k0 = ks[0]
                    fired["close_date_passed"] = fired.get("close_date_passed", 0) + 1
                    if (np.abs(pos[name][k0:]) > 1e-12).any():
                        k = k0 + int(np.argmax(np.abs(pos[name][k0:]) > 1e-12))
                        decl = [s["decl"] for _p, s in drive_engine.trees.securities(plan["tree"]) if s["name"] == name]
                        flat_at_close = not (np.abs(pos[name][:k0]) > 1e-12).any()
                        viol.append({"check": "c20_close", "detail": "%s closes after %s but holds %r at the end of %s" % (name, D, pos[name][k], dates[k]), "flags": {"fam": fam, "lazy_child": bool(decl and decl[0] != "obj"), "flat_when_date_passed": bool(flat_at_close)}})
                        break
                    if (np.abs(pos[name][:k0]) > 1e-12).any():
                        fired["position_closed"] = fired.get("position_closed", 0) + 1
                for sid, t, _p, selected in snaps:
                    if sid == 5:
                        for name, (d,) in zip(tab["index"], tab["data"]):
                            if dates[t] >= _dt.datetime.fromisoformat(d) and name in selected:
                                decl = [s["decl"] for _p, s in drive_engine.trees.securities(plan["tree"]) if s["name"] == name]
                                D = _dt.datetime.fromisoformat(d)
                                k0 = [k for k, x in enumerate(dates) if x >= D][0]
                                flat = name not in pos or not (np.abs(pos[name][:k0]) > 1e-12).any()
                                viol.append({"check": "c20_select_active", "detail": "%s was closed after %s but SelectActive still selects it on %s" % (name, d, dates[t]), "flags": {"lazy_child": bool(decl and decl[0] != "obj"), "flat_when_date_passed": bool(flat)}})
                                break
        if fam == "roll":
            tab = plan["x"]["table"]
            by_t = {t: p for sid, t, p, _s in snaps if sid == 4}
            done = set()
            for t in sorted(by_t):
                before = {n: (pos[n][t - 1] if t >= 1 else 0.0) for n in pos}
                exp = dict(before)
                for name, (d, target, factor) in zip(tab["index"], tab["data"]):
                    if name in done or name not in before:
                        continue
                    if dates[t] >= _dt.datetime.fromisoformat(d):
                        done.add(name)
                        exp[target] = exp.get(target, 0.0) + factor * before[name]
                        exp[name] = exp.get(name, 0.0) - before[name]
                        if before[name] != 0:
                            fired["roll"] = fired.get("roll", 0) + 1
                got = by_t[t]
                for n in set(exp) | set(got):
                    if abs(got.get(n, 0.0) - exp.get(n, 0.0)) > 1e-9 * (1 + abs(exp.get(n, 0.0))):
                        viol.append({"check": "c20_roll", "detail": "after RollPositionsAfterDates on %s %s holds %r, expected %r (before %r)" % (dates[t], n, got.get(n, 0.0), exp.get(n, 0.0), before.get(n, 0.0)), "flags": {}})
                        break
                else:
                    continue
                break
        nontriv = bool(fired.get("hedge") or fired.get("position_closed") or fired.get("roll"))
        return dict(viol=viol, fired=fired, nontrivial=nontriv, info={"fam_" + fam: 1}, dates=len(dates), steps=len(sim.spy_log))

    def owns(self, check):
        return check.startswith("c20_")

    def simplifications(self, plan):
        return []


@register
class C14(Spec):
    id = "C14"
    tiers = {"quick": dict(runs=3000, builds=("py",), wall=75), "thorough": dict(runs=50000, builds=("py",), wall=1200)}
    rule = (
        "every selection algo sits behind the oracle wrapper in a real Backtest.run over feeds with NaN / zero / negative ticks, late listings and delistings at and around now; each date the stack evaluates 4-8 branches, each with its own prior temp['selected'] (absent, subset, with an outsider), seeded parameters "
        "(n absolute / fractional, ascending, all_or_none, filter_selected, include_no_data / include_negative, lookback, lag, min_count), seeded signal / stat / on-the-run frames and the global PRNG; references of 3-10 lines are evaluated on the same universe window; ties in ranked selection are left open; "
        "distinct = plan digest; non-trivial = >= 10 judged calls of which >= 1 with a tick fault on the current row"
    )
    assumptions = ["thin-to-moderate fit (see DESIGN): pure functions of (window, parameters, temp); the simulation contributes tick faults at the current date and windows positioned by the clock", "SelectActive is judged in C20 (its perm state is built by real close / roll algos)"]

    def gen(self, r, tier, i):
        ndates = r.randint(4, 18)
        ntick = r.randint(3, 6)
        fspec, fired = drive_engine.gen_feed(r, ndates, ntick, style=r.choice(["bday", "gaps", "intraday"]), faults={"late_listing": 0.25, "delisting": 0.2, "nan_tick": 0.4, "zero_tick": 0.3, "negative_tick": 0.2}, spread_p=0.0)
        dates, tickers = fspec["dates"], fspec["tickers"]
        gap = drive_engine.max_gap_days(dates)
        extra = {}
        branches = []

        kids = []
        for t in tickers:
            if r.random() < 0.6:
                kids.append({"k": "X", "name": t, "cls": r.choice(["Security", "Security", "CouponPayingSecurity", "HedgeSecurity", "FixedIncomeSecurity"]), "mult": 1.0, "decl": "obj"})
        if r.random() < 0.4:
            kids.append({"k": "S", "name": "inner", "cls": "Strategy", "fi": False, "how": "list", "children": [], "algos": []})
        declared = [k["name"] for k in kids if k["k"] == "X"]
        if kids and not declared:
            kids = []
        uni = declared or list(tickers)  # the tickers of the strategy's universe: names are drawn from it
        all_tickers = tickers
        tickers = uni

        def prior():
            k = r.random()
            if k < 0.3:
                return "__del__"
            sub = r.sample(tickers, r.randint(0, len(tickers)))
            return sub

        flags = lambda: {"include_no_data": r.random() < 0.2, "include_negative": r.random() < 0.3}  # noqa: E731
        for bi in range(r.randint(4, 8)):
            a = r.choice(["SelectAll", "SelectThese", "SelectHasData", "SelectN", "SelectMomentum", "StatTotalReturn", "SetStat", "SelectWhere", "SelectRandomly", "SelectRegex", "SelectTypes", "ResolveOnTheRun"])
            pre = [{"a": "SetTemp", "set": {"selected": prior()}}]
            if a == "SelectAll":
                inner = {"a": a, "kw": flags()}
            elif a == "SelectThese":
                inner = {"a": a, "args": [r.sample(tickers, r.randint(1, len(tickers)))], "kw": flags()}
            elif a == "SelectHasData":
                inner = {"a": a, "kw": dict(flags(), lookback={"days": gap * r.randint(0, 4) + r.randint(0, 2)}, min_count=r.randint(1, 4))}
            elif a in ("SelectMomentum", "StatTotalReturn"):
                p = r.sample(tickers, r.randint(1, len(tickers)))
                pre = [{"a": "SetTemp", "set": {"selected": p}}]
                kw = {"lookback": {"days": gap * r.randint(1, 4) + r.randint(0, 3)}, "lag": {"days": r.choice([0, 0, 1, 2, gap])}}
                if a == "SelectMomentum":
                    kw.update(sort_descending=r.random() < 0.6, all_or_none=r.random() < 0.3)
                    inner = {"a": a, "args": [r.randint(1, len(tickers))], "kw": kw}
                else:
                    inner = {"a": a, "kw": kw}
            elif a == "SetStat":
                nm = "stat%d" % bi
                extra[nm] = drive_engine._frame(tickers, [[None if r.random() < 0.1 else round(r.gauss(0, 1), 3) for _ in tickers] for _ in dates])
                inner = {"a": a, "args": [nm], "kw": {"lag": {"days": r.choice([0, 0, 1, gap])}}}
            elif a == "SelectN":
                nm = "stat%d" % bi
                vals = [[None if r.random() < 0.15 else r.choice([round(r.gauss(0, 1), 3), 0.5, 0.5]) for _ in tickers] for _ in dates]
                extra[nm] = drive_engine._frame(tickers, vals)
                pre.append({"a": "SetStat", "args": [nm]})
                inner = {"a": a, "args": [r.choice([1, 2, 3, 0.34, 0.5, 0.99, len(tickers)])], "kw": {"sort_descending": r.random() < 0.6, "all_or_none": r.random() < 0.3, "filter_selected": r.random() < 0.5}}
            elif a == "SelectWhere":
                nm = "sig%d" % bi
                if r.random() < 0.6:
                    extra[nm] = drive_engine._frame(tickers, [[r.random() < 0.6 for _ in tickers] for _ in dates], dtype="bool")
                else:
                    # an indicator with holes (a shifted / re-indexed / warming-up signal): 1, 0 or missing - missing is not True
                    extra[nm] = drive_engine._frame(tickers, [[(None if r.random() < 0.25 else (1.0 if r.random() < 0.6 else 0.0)) for _ in tickers] for _ in dates])
                    fired["signal_with_holes"] = 1
                inner = {"a": a, "args": [nm], "kw": flags()}
            elif a == "SelectRandomly":
                inner = {"a": a, "kw": dict(flags(), n=r.choice([None, 1, 2, 10]))}
            elif a == "SelectRegex":
                p = r.sample(tickers, r.randint(0, len(tickers)))
                pre = [{"a": "SetTemp", "set": {"selected": p}}]
                inner = {"a": a, "args": ["[%s]" % "".join(r.sample(tickers, r.randint(1, len(tickers))))]}
            elif a == "SelectTypes":
                inner = {"a": a, "include": r.choice([["Node"], ["SecurityBase"], ["Security"], ["StrategyBase"], ["CouponPayingSecurity", "HedgeSecurity"]]), "exclude": r.choice([[], [], ["HedgeSecurity"], ["StrategyBase"]])}
            else:
                nm = "otr%d" % bi
                alias = ["OTR1", "OTR2"]
                extra[nm] = {"kind": "frame", "cols": alias, "data": [[r.choice(tickers) for _ in alias] for _ in dates], "dtype": "object"}
                p = r.sample(tickers, r.randint(0, min(2, len(tickers)))) + r.sample(alias, r.randint(1, 2))
                pre = [{"a": "SetTemp", "set": {"selected": p}}]
                inner = {"a": a, "args": [nm], "kw": flags()}
            branches.append({"a": "AlgoStack", "algos": pre + [{"a": "Wrap", "inner": inner}]})
        tickers = all_tickers
        if any(k["cls"] in ("CouponPayingSecurity",) for k in kids if k["k"] == "X"):
            fspec["coupons"] = [[0.0 for _ in tickers] for _ in dates]
        root = {"k": "S", "name": "top", "cls": "Strategy", "fi": False, "how": "list", "children": kids, "algos": [{"a": "Or", "algos": branches}]}
        cfg = {"integer": True, "comm": None, "capital": 1e6, "fi": False, "obs_price": False, "obs_eod": False, "profile": "select"}
        return {"driver": "engine", "cfg": cfg, "tree": root, "feed": fspec, "extra": extra, "fired": fired, "declared": declared, "seed": r.randrange(1 << 30)}

    def run(self, bt, plan):
        from .monitors import c14

        sim = drive_engine.EngineSim(bt, plan, set())
        sim.light = True
        mon = c14.C14Monitor(sim, plan)
        sim.wrap_monitor = mon
        drive_engine.taps.install(bt)
        rng.pin_globals(plan["seed"])
        exc = None
        try:
            sim.setup()
            sim.bkt.run()
        except Exception as e:  # noqa
            exc = e
        finally:
            drive_engine.taps.set_current(None)
        viol = sim.viol
        if exc is not None:
            import traceback

            tb = traceback.format_exception(type(exc), exc, exc.__traceback__)
            where = [ln.strip() for ln in tb if "algos.py" in ln][-1:] or [""]
            viol.append({"check": "c14_exception", "detail": "%s: %s @ %s" % (type(exc).__name__, str(exc)[:160], where[0][:120]), "flags": {"exc": type(exc).__name__}})
        fired = dict(plan.get("fired", {}))
        fired["tick_fault_at_now"] = mon.fault_at_now
        return dict(viol=viol[:3], fired=fired, nontrivial=(mon.judged >= 10 and mon.fault_at_now >= 1), info={"selection_calls_judged": mon.judged}, dates=len(plan["feed"]["dates"]), steps=mon.judged)

    def owns(self, check):
        return check.startswith("c14_")

    def simplifications(self, plan):
        out = []
        br = plan["tree"]["algos"][0]["algos"]
        for i in range(len(br)):
            b2 = br[:i] + br[i + 1:]
            if b2:
                out.append(dict(plan, tree=dict(plan["tree"], algos=[{"a": "Or", "algos": b2}])))
        return out


@register
class C15(Spec):
    id = "C15"
    tiers = {"quick": dict(runs=1000, builds=("py",), wall=80), "thorough": dict(runs=30000, builds=("py",), wall=1200)}
    rule = (
        "every weighting algo sits behind the oracle wrapper in real Backtest.run()s: each date the stack evaluates 4-7 branches with their own selection (empty, single, many) and seeded parameters (windows, lags, limits, bounds, targets), "
        "then a trading tail (weights -> LimitDeltas / PTE_Rebalance behind the wrapper -> Rebalance) keeps a live drifting portfolio; stated relations are checked on the same universe window (normalisation, w_i sigma_i equal, equal risk contributions under the same estimator, caps, delta limits vs live weights, ex-ante vol = target, PTE trigger); "
        "distinct = plan digest; non-trivial = >= 10 judged calls and a live portfolio"
    )
    assumptions = ["thin fit (see DESIGN): algebraic relations over inputs; the simulation supplies windows positioned by the clock and live drifted portfolios", "ffn's optimisers are trusted up to the stated relation (ERC risk contributions equal within 2e-3 of total risk)"]

    def gen(self, r, tier, i):
        ndates = r.randint(18, 30)
        ntick = r.randint(3, 5)
        fspec, fired = drive_engine.gen_feed(r, ndates, ntick, style="bday", faults={"late_listing": 0.15}, spread_p=0.0)
        dates, tickers = fspec["dates"], fspec["tickers"]
        drive_engine.ensure_moving(fspec, r)  # risk algos need moving prices
        warm = 13
        extra = {}
        full = [t for j, t in enumerate(tickers) if all(row[j] is not None for row in fspec["prices"])]
        if not full:
            # every name is listed late (0.15^n): the trading tail needs one that is quoted throughout - a target in a name
            # without a quote is an ill-formed plan (the refusal is C05 / C10's subject); the first one gets a full history
            first = next(row[0] for row in fspec["prices"] if row[0] is not None)
            for row in fspec["prices"]:
                if row[0] is None:
                    row[0] = first
            full = tickers[:1]
        branches = []
        win = lambda: {"lookback": {"days": r.randint(12, 17)}, "lag": {"days": r.choice([0, 0, 1, 2])}}  # noqa: E731

        def selection():
            k = r.random()
            if k < 0.1:
                return []
            if k < 0.2:
                return [r.choice(full)]
            return r.sample(full, r.randint(2, len(full))) if len(full) >= 2 else list(full)

        def wvec(names):
            raw = [r.random() + 0.05 for _ in names]
            tot = sum(raw)
            return {n: round(x / tot, 6) for n, x in zip(names, raw)}

        for bi in range(r.randint(4, 7)):
            a = r.choice(["WeighEqually", "WeighSpecified", "ScaleWeights", "WeighTarget", "WeighInvVol", "WeighERC", "WeighMeanVar", "WeighRandomly", "LimitWeights", "TargetVol"])
            sel = selection()
            pre = [{"a": "SetTemp", "set": {"selected": sel, "weights": "__del__"}}]
            if a in ("WeighEqually",):
                inner = {"a": a}
            elif a == "WeighSpecified":
                inner = {"a": a, "weights": wvec(sel or full[:1])}
            elif a == "ScaleWeights":
                pre.append({"a": "Wrap", "inner": {"a": "WeighSpecified", "weights": wvec(sel or full[:1])}})
                inner = {"a": a, "args": [r.choice([0.5, -1.0, 2.0, 0.0])]}
            elif a == "WeighTarget":
                nm = "tw%d" % bi
                rows = sorted(r.sample(dates, r.randint(2, len(dates))))
                extra[nm] = drive_engine._frame(tickers, [[None if r.random() < 0.2 else round(r.random(), 4) for _ in tickers] for _ in rows], rows=rows)
                inner = {"a": a, "args": [nm]}
            elif a in ("WeighInvVol", "WeighERC", "WeighMeanVar"):
                inner = {"a": a, "kw": win()}
                if a == "WeighMeanVar" and r.random() < 0.5:
                    inner["kw"]["bounds"] = [0.0, r.choice([0.6, 0.8, 1.0])]
                if a == "WeighERC" and len(sel) >= 2 and r.random() < 0.5:
                    # a risk budget, given as a list in the order of the selection (which is not the order of the data's columns)
                    raw = [r.uniform(0.2, 1.0) for _ in sel]
                    inner["kw"]["risk_weights"] = [round(x / sum(raw), 4) for x in raw]
                    fired["erc_risk_budget"] = 1
            elif a == "WeighRandomly":
                lo = r.choice([0.0, 0.0, 0.1])
                hi = r.choice([1.0, 0.6, 0.4, 0.2])
                inner = {"a": a, "kw": {"bounds": [lo, hi], "weight_sum": r.choice([1, 1, 0.5])}}
            elif a == "LimitWeights":
                pw = wvec(sel or full[:1])
                if len(pw) >= 2 and r.random() < 0.25:
                    # everything in one name, the others at zero
                    names_ = list(pw)
                    pw = {n: (1.0 if n == names_[0] else 0.0) for n in names_}
                pre.append({"a": "Wrap", "inner": {"a": "WeighSpecified", "weights": pw}})
                inner = {"a": a, "kw": {"limit": r.choice([0.1, 0.3, 0.4, 0.6, 0.9])}}
            else:
                pre.append({"a": "Wrap", "inner": {"a": "WeighSpecified", "weights": wvec(sel if len(sel) >= 2 else full[:2] if len(full) >= 2 else full)}})
                inner = {"a": a, "args": [r.choice([0.05, 0.1, 0.2])], "kw": win()}
                if r.random() < 0.5:
                    inner["kw"]["annualization_factor"] = r.choice([52, 12, 365])  # (weekly / monthly / calendar-day data)
            branches.append({"a": "AlgoStack", "algos": pre + [{"a": "Wrap", "inner": inner}]})
        # trading tail: a live portfolio that drifts, LimitDeltas / PTE_Rebalance judged against it
        tailw = wvec(full)
        nmw = "ptw"
        extra[nmw] = drive_engine._frame(tickers, [[tailw.get(t, 0.0) for t in tickers] for _ in dates])
        tail = [{"a": "SetTemp", "set": {"selected": "__del__", "weights": "__del__"}}]
        k = r.random()
        if k < 0.5:
            rows = sorted(r.sample(dates[warm:], r.randint(2, len(dates) - warm)))
            nm = "tailtw"
            data = []
            for _ in rows:
                # targets over a changing subset: names held from an earlier rebalance drop out of the vector
                sub = r.sample(full, r.randint(1, len(full)))
                ws = wvec(sub)
                data.append([ws.get(n) for n in full])
            extra[nm] = drive_engine._frame(full, data, rows=rows)
            lim = r.choice([0.02, 0.05, 0.2, {full[0]: 0.03}, 0.0, {full[0]: 0.0, full[-1]: 0.1}])  # (a limit of zero: that name's weight may not move at all)
            # (a third of these tails take their targets from WeighSpecified: what LimitDeltas does to the dict it is handed must
            # not leak into the specification of the next date)
            src_w = {"a": "WeighTarget", "args": [nm]} if r.random() < 0.67 else {"a": "Wrap", "inner": {"a": "WeighSpecified", "weights": tailw}}
            tail += [src_w, {"a": "Wrap", "inner": {"a": "LimitDeltas", "kw": {"limit": lim}}}, {"a": "Rebalance"}]
        else:
            tail += [{"a": "Or", "algos": [{"a": "RunOnDate", "dates": [dates[warm]]}, {"a": "Wrap", "inner": {"a": "PTE_Rebalance", "args": [r.choice([0.002, 0.01, 0.03]), "@" + nmw], "kw": dict(win(), **({"annualization_factor": r.choice([52, 12, 365])} if r.random() < 0.5 else {}))}}]}, {"a": "WeighSpecified", "weights": tailw}, {"a": "Rebalance"}]
        root = {"k": "S", "name": "top", "cls": "Strategy", "fi": False, "how": "list", "children": [], "algos": [{"a": "RunAfterDate", "date": dates[warm - 1]}, {"a": "Or", "algos": branches + [{"a": "AlgoStack", "algos": tail}]}]}
        cfg = {"integer": r.random() < 0.5, "comm": None, "capital": 1e6, "fi": False, "obs_price": False, "obs_eod": False, "profile": "weigh"}
        return {"driver": "engine", "cfg": cfg, "tree": root, "feed": fspec, "extra": extra, "fired": fired, "seed": r.randrange(1 << 30)}

    def run(self, bt, plan):
        from .monitors import c15

        sim = drive_engine.EngineSim(bt, plan, set())
        sim.light = True
        mon = c15.C15Monitor(sim, plan)
        sim.wrap_monitor = mon
        drive_engine.taps.install(bt)
        rng.pin_globals(plan["seed"])
        exc = None
        try:
            sim.setup()
            sim.bkt.run()
        except Exception as e:  # noqa
            exc = e
        finally:
            drive_engine.taps.set_current(None)
        viol = sim.viol
        if exc is not None:
            import traceback

            tb = traceback.format_exception(type(exc), exc, exc.__traceback__)
            where = [ln.strip() for ln in tb if "algos.py" in ln][-1:] or [""]
            if any(str(exc).startswith(st) for st in drive_tree.SIZING_STEMS):
                viol.append({"check": "C10.sizing_exception", "detail": str(exc)[:80], "flags": {}})
            else:
                viol.append({"check": "c15_exception", "detail": "%s: %s @ %s" % (type(exc).__name__, str(exc)[:160], where[0][:160]), "flags": {"exc": type(exc).__name__}})
        traded = sim.root is not None and getattr(sim.root, "data", None) is not None and any((n.data["position"].to_numpy() != 0).any() for n in sim.root.members if not hasattr(n, "capital"))
        info = {"weighting_calls_judged": mon.judged}
        for k, v in mon.kinds.items():
            info["judged_" + k] = v
        return dict(viol=viol[:3], fired=dict(plan.get("fired", {})), nontrivial=(mon.judged >= 10 and traded), info=info, dates=len(plan["feed"]["dates"]), steps=mon.judged)

    def owns(self, check):
        return check.startswith("c15_")

    def simplifications(self, plan):
        out = []
        orr = plan["tree"]["algos"][1]["algos"]
        for i in range(len(orr) - 1):
            b2 = orr[:i] + orr[i + 1:]
            out.append(dict(plan, tree=dict(plan["tree"], algos=[plan["tree"]["algos"][0], {"a": "Or", "algos": b2}])))
        return out
