"""One Spec per property: which driver profile generates the runs, which oracles are judged."""
from . import comm as commod
from . import drive_engine, drive_tree
from . import feed as feedmod
from . import rng
from .runner import Spec

SPECS = {}


def register(cls):
    SPECS[cls.id] = cls()
    return cls


TREE_ASSUME = [
    "the reference ledger (sim/model.py) is a correct reading of the specification; it adopts the traded quantity chosen by SecurityBase.allocate (validated by C05) and the commission function's value",
    "comparisons with the model use a relative tolerance of 1e-9 of the gross book; quantities inside the (1e-16, 1e-9*scale) band around a threshold are inconclusive, counted, not judged",
    "plans are well-formed: trades only at finite positive prices, runs end before an open position meets a NaN / non-positive price",
]


class TreeSpec(Spec):
    profile = "accounting"
    judged = ()
    own_checks = ()
    rule = (
        "seeded plan = tree spec x feed (with tick faults) x op list (adjust/allocate/spread/rebalance/close/flatten/transact/tick/dup/read, update= flags); "
        "distinct = distinct plan digest; non-trivial = executed >= 1 trade and >= 2 ticks"
    )
    assumptions = TREE_ASSUME
    tiers = {"quick": dict(runs=8000, builds=("py",), wall=75), "thorough": dict(runs=150000, builds=("py", "cy"), wall=1500)}

    engine_every = 0  # every n-th run is a real Backtest.run of a stock-algo stack (engine driver)

    def gen(self, r, tier, i):
        if self.engine_every and i % self.engine_every == self.engine_every - 1:
            return drive_engine.gen_engine_plan(r, "mixed", tier)
        return drive_tree.gen_plan(r, self.profile_for(r, i), tier)

    def profile_for(self, r, i):
        return self.profile

    def execute(self, bt, plan):
        if plan["driver"] == "engine":
            return drive_engine.run_engine_plan(bt, plan, set(self.judged))
        return drive_tree.run_plan(bt, plan, set(self.judged))

    def run(self, bt, plan):
        sim = self.execute(bt, plan)
        info = {"stop_" + str(sim.stop_reason): 1, "driver_" + plan["driver"]: 1, "observations": sim.nobs, "ops_executed": sim.nops_done, "trades": sim.model.ntrades, "transfers": sim.model.ntransfers, "root_updates": sim.root_updates}
        for k, v in sim.inconclusive.items():
            info["inconclusive_" + k] = v
        return dict(
            viol=sim.viol,
            fired=sim.fired,
            nontrivial=(sim.model.ntrades >= 1 and sim.ticks >= 3),
            states=sim.states,
            bigrams=sim.bigrams,
            dates=sim.ticks,
            steps=sim.nops_done + len(getattr(sim, "spy_log", ())) + sim.root_updates,
            info=info,
        )

    def owns(self, check):
        return check in self.own_checks

    def simplifications(self, plan):
        out = []
        cfg = plan["cfg"]
        if plan["driver"] != "tree":
            return drive_engine.simplifications(plan)
        if cfg["comm"]["kind"] != "zero":
            out.append(dict(plan, cfg=dict(cfg, comm={"kind": "zero"})))
        f = plan["feed"]
        for k in ("bidoffer", "cost_long", "cost_short"):
            if f.get(k) is not None:
                f2 = dict(f)
                f2[k] = None
                out.append(dict(plan, feed=f2))
        if cfg.get("obs_price"):
            out.append(dict(plan, cfg=dict(cfg, obs_price=False)))
        # simpler numbers in ops
        for i, o in enumerate(plan["ops"]):
            for key, simple in (("frac", 0.5), ("w", 0.5), ("qfrac", 0.5), ("k", 1)):
                if key in o and o[key] != simple and abs(o[key]) != simple:
                    o2 = dict(o)
                    o2[key] = simple if o[key] > 0 else -simple
                    ops = list(plan["ops"])
                    ops[i] = o2
                    out.append(dict(plan, ops=ops))
            if "fresh" in o and False:
                pass
        return out


@register
class C01(TreeSpec):
    id = "C01"
    engine_every = 4
    judged = ("C01",)
    own_checks = ("value_identity", "sec_value", "sec_price", "weight", "weight_sum", "ledger_pos", "ledger_cash", "ledger_value", "notional", "rows_value", "rows_cash", "rows_position", "rows_notional_value")
    tiers = {"quick": dict(runs=6000, builds=("py", "cy"), wall=75), "thorough": dict(runs=150000, builds=("py", "cy"), wall=1500)}

    def profile_for(self, r, i):
        return "accounting" if i % 4 else "schedule"


@register
class C02(TreeSpec):
    id = "C02"
    engine_every = 4
    judged = ("C02",)
    own_checks = ("ledger_value", "ledger_cash", "ledger_pos", "conservation")

    def profile_for(self, r, i):
        return "accounting" if i % 5 else "fi"


@register
class C03(TreeSpec):
    id = "C03"
    engine_every = 4
    judged = ("C03",)
    own_checks = ("index_start", "index_recurrence", "root_flows", "rows_flows")


@register
class C07(TreeSpec):
    id = "C07"
    engine_every = 4
    judged = ("C07",)
    own_checks = ("rows_fees", "rows_flows", "rows_outlay", "rows_bidoffer_paid", "cash_ledger", "ledger_cash", "comm_calls")


@register
class C08(TreeSpec):
    id = "C08"
    judged = ("C08",)
    profile = "schedule"
    own_checks = ("idempotence", "freshness", "append_only", "beyond_now")


@register
class C05(TreeSpec):
    id = "C05"
    judged = ("C05",)
    own_checks = ("c05_sizing_exception", "c05_refuse", "c05_refuse_state", "c05_zero_amount", "c05_close", "c05_integral", "c05_overspend", "c05_underfill", "c05_cash", "c05_probe_booked")
    rule = TreeSpec.rule + "; every SecurityBase.allocate call of the run (direct, via rebalance/close/flatten/spread) is judged against the budget rule; non-trivial additionally needs >= 1 judged allocate"

    def profile_for(self, r, i):
        return "sizing" if i % 3 else "accounting"

    def run(self, bt, plan):
        res = TreeSpec.run(self, bt, plan)
        res["nontrivial"] = res["nontrivial"] and res["fired"].get("alloc_judged", 0) >= 1
        return res


@register
class C10(TreeSpec):
    id = "C10"
    judged = ("C10", "C05")
    own_checks = ("C10.unexpected_exception", "C10.sizing_exception", "C10.zero_base_missed", "C10.open_nan_missed", "C10.nonfinite", "C10.report_raises", "C10.ill_not_raised", "C10.ill_state_changed", "c05_refuse", "c05_refuse_state")
    tiers = {"quick": dict(runs=3600, builds=("py", "cy"), wall=75), "thorough": dict(runs=120000, builds=("py", "cy"), wall=1500)}
    rule = (
        "runs alternate between well-formed tree-driver plans, well-formed real Backtest.run()s of stock-algo stacks (then every report accessor is called and every recorded number must be finite) and plans with one enumerated ill-formed situation injected "
        "(NaN price on an open position, trade at NaN/zero price, custom-price trade without bid/offer data, fixed-income child under a market-value parent, duplicate tickers); an exception is legitimate iff the reference model shows one of the enumerated conditions at that instant, and then it is required; "
        "distinct = plan digest; non-trivial = >= 1 trade and >= 2 ticks, or an ill-formed situation that actually arose"
    )
    ILL = ("nan_open", "custom_nobidoffer", "fi_child")

    def gen(self, r, tier, i):
        k = i % 6
        if k in (0, 3):
            return drive_engine.gen_engine_plan(r, "mixed", tier)
        if k == 5:
            return drive_tree.gen_ill_plan(r, self.ILL[(i // 6) % len(self.ILL)], tier)
        return drive_tree.gen_plan(r, "sizing" if k == 4 else "accounting", tier)

    def run(self, bt, plan):
        res = TreeSpec.run(self, bt, plan)
        ill = plan["cfg"].get("ill")
        if ill:
            res["info"]["ill_" + ill] = 1
            f = res["fired"]
            if f.get("open_nan_raise") or f.get("ill_custom_price") or f.get("ill_fi_child"):
                res["nontrivial"] = True
                res["info"]["ill_arose_" + ill] = 1
        if plan["driver"] == "engine" and plan["cfg"].get("dupcheck", True):
            if not drive_engine.check_dup_columns(bt, plan):
                res["viol"].append({"check": "C10.ill_not_raised", "detail": "Backtest accepted duplicate column names", "flags": {"ill": "dup_cols"}})
            res["fired"]["ill_dup_columns"] = res["fired"].get("ill_dup_columns", 0) + 1
        return res


# ============================================================================================
# twin-run checks (no reference model: two executions of the same code are compared bit for bit)
# ============================================================================================
import copy as _copy
import math as _math
import random as _random


def _corrupt_future(plan, cut, kind, seed):
    """every supplied value dated after feed row `cut` is perturbed; the index (the calendar) is unchanged"""
    r = _random.Random(seed)
    p = _copy.deepcopy(plan)
    f = p["feed"]
    n = len(f["dates"])

    def pert(x, k):
        if k == "scale":
            return None if x is None else round(x * r.uniform(0.3, 3.0), 6)
        if k == "redraw":
            return round(_math.exp(r.uniform(0, 6)), 4)
        if k == "nan":
            return None
        if k == "zero":
            return 0.0
        return x

    for key in ("prices", "bidoffer", "coupons", "cost_long", "cost_short"):
        m = f.get(key)
        if m is None:
            continue
        for i in range(cut + 1, n):
            for j in range(len(m[i])):
                kk = kind if key == "prices" else ("scale" if kind in ("nan", "zero") else kind)
                if kind == "mixed":
                    kk = r.choice(["scale", "redraw", "nan", "zero"]) if key == "prices" else "scale"
                m[i][j] = pert(m[i][j], kk)
    cutdate = f["dates"][cut]
    for _name, fr in (p.get("extra") or {}).items():
        if fr["kind"] not in ("frame", "series"):
            continue
        rows = fr.get("rows") or f["dates"]
        for i, d in enumerate(rows):
            if d > cutdate:
                if fr["kind"] == "series":
                    fr["data"][i] = pert(fr["data"][i], "scale")
                elif fr.get("dtype") == "bool":
                    fr["data"][i] = [not x for x in fr["data"][i]]
                else:
                    fr["data"][i] = [pert(x, "scale" if kind in ("nan", "zero") else ("scale" if kind == "mixed" else kind)) if x is not None else (0.3 if r.random() < 0.3 else None) for x in fr["data"][i]]
    return p


def _last_complete(sim, exc):
    """timestamp up to which a run's rows are final: the whole index if it completed, else the date before the failure"""
    if exc is None:
        return sim.dates[-1]
    now = sim.root.now
    if now == 0:
        return None
    i = sim.dates.index(now)
    return sim.dates[i - 1] if i >= 1 else None


@register
class C04(Spec):
    id = "C04"
    tiers = {"quick": dict(runs=900, builds=("py",), wall=80), "thorough": dict(runs=30000, builds=("py", "cy"), wall=1500)}
    rule = (
        "seeded strategy assembled from every stock scheduling / selection / statistic / weighting / rebalancing algo (nested trees, bid/offer, signal / target-weight / stat frames) is run by the real Backtest; "
        "fault future_corruption: for 2 seeded cut dates every supplied value dated after the cut is scaled / re-drawn / set NaN / zero (index unchanged) and the run repeated; all node histories and transactions up to the cut must be byte-identical; "
        "evaluations = twin pairs; distinct = distinct (plan, cut) digests; non-trivial = the base run holds a position at or before the cut"
    )
    assumptions = [
        "the calendar (date index) is not data: 'last date' logic may depend on it",
        "a node that only one run creates lazily after the cut counts as flat zero rows in the other",
        "global PRNGs are re-seeded identically before each twin",
    ]

    def gen(self, r, tier, i):
        plan = drive_engine.gen_all_algos_plan(r, tier, stateful=True)
        n = len(plan["feed"]["dates"])
        plan["cuts"] = [[r.randint(0, n - 2), r.choice(["scale", "redraw", "nan", "zero", "mixed"]), r.randrange(1 << 30)] for _ in range(2)]
        plan["seed"] = r.randrange(1 << 30)
        return plan

    def run(self, bt, plan):
        import pandas as pd

        viol = []
        fired = {}
        info = {}
        nontriv = set()
        base, bexc = drive_engine.run_light(bt, plan, seed=plan["seed"])
        if base.root is None:
            return dict(viol=[], fired={}, nontrivial=False, info={"setup_failed": 1})
        blast = _last_complete(base, bexc)
        info["base_raised" if bexc is not None else "base_completed"] = 1
        n_eval = 0
        for cut, kind, cseed in plan["cuts"]:
            cp = _corrupt_future(plan, cut, kind, cseed)
            tw, texc = drive_engine.run_light(bt, cp, seed=plan["seed"])
            fired["future_corruption_" + kind] = fired.get("future_corruption_" + kind, 0) + 1
            n_eval += 1
            cutdate = pd.Timestamp(plan["feed"]["dates"][cut])
            if tw.root is None:
                viol.append({"check": "lookahead_exception", "detail": "corrupting data after %s made construction fail: %r" % (cutdate, texc), "flags": {"kind": kind}})
                continue
            tlast = _last_complete(tw, texc)
            lim = cutdate
            for x in (blast, tlast):
                if x is None:
                    lim = None
                elif lim is not None and x < lim:
                    lim = x
            # an exception on a date <= cut must occur in both runs on the same date
            bfail = base.root.now if bexc is not None else None
            tfail = tw.root.now if texc is not None else None
            if (bfail is not None and bfail <= cutdate) != (tfail is not None and tfail <= cutdate) or (bfail is not None and bfail <= cutdate and bfail != tfail):
                viol.append({"check": "lookahead_exception", "detail": "with data after %s corrupted (%s) the run fails at %s (%r) instead of %s (%r)" % (cutdate, kind, tfail, str(texc)[:80], bfail, str(bexc)[:80]), "flags": {"kind": kind}})
                continue
            if lim is None:
                continue
            ha = drive_engine.histories(base.root, lim)
            hb = drive_engine.histories(tw.root, lim)
            d = drive_engine.diff_histories(ha, hb)
            if d is not None:
                viol.append({"check": "lookahead", "detail": "data after %s corrupted (%s): history up to %s differs: %s" % (cutdate, kind, lim, d), "flags": {"kind": kind}})
                continue
            held = any(("position" in cols and (cols["position"] != 0).any()) for cols in ha.values())
            if held:
                nontriv.add((cut, kind))
        stacks = []
        for _p, s in drive_engine.trees.strategies(plan["tree"]):
            stacks += [a["a"] if a["a"] != "run_always" else a["algo"]["a"] for a in s.get("algos", [])]
        for a in set(stacks):
            info["algo_" + a] = 1
        info["twin_pairs"] = n_eval
        return dict(viol=viol, fired=fired, nontrivial=bool(nontriv), info=info, dates=len(base.dates) * (1 + n_eval), steps=n_eval)

    def owns(self, check):
        return check.startswith("lookahead")

    def simplifications(self, plan):
        out = drive_engine.simplifications(plan)
        if len(plan.get("cuts", [])) > 1:
            for c in plan["cuts"]:
                out.insert(0, dict(plan, cuts=[c]))
        return [p for p in out if all(c[0] < len(p["feed"]["dates"]) - 1 for c in p.get("cuts", []))]


def _nondeterministic(stack):
    return any(a.get("a") in ("SelectRandomly", "WeighRandomly") for a in stack)


@register
class C09(Spec):
    id = "C09"
    tiers = {"quick": dict(runs=1500, builds=("py",), wall=80), "thorough": dict(runs=40000, builds=("py", "cy"), wall=1500)}
    rule = (
        "seeded calendar-gated deterministic child definition is backtested (i) stand-alone with default settings and (ii) nested under a seeded parent whose allocation schedule is the fault axis "
        "(never funded, late funding, tiny funding, withdrawals, weight flips, parent flows, chaos algos); child.prices (nested) must equal strategy.prices (stand-alone) byte for byte on every date, and the column the parent "
        "sees in universe[child] must carry that series; distinct = plan digest; non-trivial = the stand-alone child traded and its index left 100"
    )
    assumptions = ["child stacks are gated by a calendar scheduler (the paper copy's stack also runs on the synthetic pre-start row) and contain no random algos", "same data, integer mode and commission function in both runs; stand-alone initial capital is the default"]

    def gen(self, r, tier, i):
        big = tier == "thorough"
        ndates = r.randint(5, 30 if big else 20)
        ntick = r.randint(2, 4)
        risk = r.random() < 0.15
        style = "bday" if risk else None
        if risk:
            ndates = max(ndates, 18)
        fspec, fired = drive_engine.gen_feed(r, ndates, ntick, style=style, faults={"late_listing": 0.15})
        dates, tickers = fspec["dates"], fspec["tickers"]
        for _ in range(20):
            cst = drive_engine.gen_stack(r, fspec, risk=risk, chaos=False, gated=True)
            if not _nondeterministic(cst):
                break
        else:
            cst = [drive_engine.sched_spec(r, dates), {"a": "SelectAll"}, {"a": "WeighEqually"}, {"a": "Rebalance"}]
        child = {"k": "S", "name": "kid", "cls": "Strategy", "fi": False, "how": "list", "children": [], "algos": cst}
        if r.random() < 0.4:
            names = r.sample(tickers, r.randint(1, len(tickers)))
            child["children"] = [{"k": "X", "name": t, "cls": "Security", "mult": 1.0, "decl": r.choice(["str", "obj"])} for t in names]
            drive_engine._restrict(child, names)
        root = {"k": "S", "name": "parent", "cls": "Strategy", "fi": False, "how": r.choice(["list", "dict"]), "children": [child]}
        others = []
        if r.random() < 0.4:
            sib = {"k": "S", "name": "sib", "cls": "Strategy", "fi": False, "how": "list", "children": [], "algos": [drive_engine.sched_spec(r, dates), {"a": "SelectAll"}, {"a": "WeighEqually"}, {"a": "Rebalance"}]}
            root["children"].append(sib)
            others.append("sib")
        full = [t for j, t in enumerate(tickers) if all(row[j] is not None and row[j] > 0 for row in fspec["prices"])]
        if r.random() < 0.4 and full:
            # the parent's own direct holdings are fully listed tickers (a parent trading at a missing price is a different, legitimate failure)
            t = r.choice(full)
            root["children"].append({"k": "X", "name": t, "cls": "Security", "mult": 1.0, "decl": "obj"})
            others.append(t)
        mode = r.choice(["never", "late", "tiny", "steady", "flip", "withdraw"])
        names = ["kid"] + others
        extra = {}
        st = [{"a": "Spy", "id": 0}]
        if mode == "never":
            st += [drive_engine.sched_spec(r, dates), {"a": "WeighSpecified", "weights": {n: (0.0 if n == "kid" else round(0.9 / max(1, len(others)), 4)) for n in names}}, {"a": "Rebalance"}]
        elif mode == "late":
            st += [{"a": "RunAfterDate", "date": dates[r.randrange(len(dates))]}, {"a": "WeighSpecified", "weights": {n: round(0.95 / len(names), 4) for n in names}}, {"a": "Rebalance"}]
        elif mode == "tiny":
            st += [drive_engine.sched_spec(r, dates), {"a": "WeighSpecified", "weights": {"kid": r.choice([1e-6, 1e-4, 0.001])}}, {"a": "Rebalance"}]
        elif mode == "steady":
            st += [drive_engine.sched_spec(r, dates), {"a": "WeighSpecified", "weights": {n: round(r.choice([0.5, 0.95, 1.0]) / len(names), 4) for n in names}}, {"a": "Rebalance"}]
        else:
            rows = sorted(r.sample(dates, r.randint(2, len(dates))))
            data = []
            for k, _d in enumerate(rows):
                if mode == "withdraw":
                    wk = [0.8, 0.0, 0.3, 0.0][k % 4]
                else:
                    wk = r.choice([0.0, 0.1, 0.5, 0.9])
                rest = (0.95 - wk) / max(1, len(others)) if others else 0.0
                data.append([wk] + [round(max(rest, 0.0), 4) for _ in others])
            extra["ptw"] = drive_engine._frame(names, data, rows=rows)
            st += [{"a": "WeighTarget", "args": ["ptw"]}, {"a": "Rebalance"}]
        if r.random() < 0.4:
            st.insert(1, drive_engine.chaos_spec(r, ndates, flows=True, capital=1e6))
        if r.random() < 0.2:
            st.insert(1, {"a": "CapitalFlow", "args": [round(r.choice([1, -1]) * r.choice([0.01, 0.1]) * 1e6, 2)]})
        root["algos"] = st
        cfg = {"integer": r.random() < 0.5, "comm": commod.gen(r, feedmod.min_unit(fspec["prices"])) if r.random() < 0.6 else None, "capital": r.choice([1e4, 1e6, 5e7]), "fi": False, "obs_price": False, "obs_eod": False, "profile": "nested"}
        return {"driver": "engine", "cfg": cfg, "tree": root, "feed": fspec, "extra": extra, "fired": fired, "mode": mode, "seed": r.randrange(1 << 30)}

    def run(self, bt, plan):
        import numpy as np

        viol = []
        fired = {"alloc_" + plan["mode"]: 1}
        info = {}
        child = [c for c in plan["tree"]["children"] if c["name"] == "kid"][0]
        alone_plan = dict(plan, tree=dict(child), cfg=dict(plan["cfg"], capital=1000000.0, name="kid"), extra={})
        alone, aexc = drive_engine.run_light(bt, alone_plan, seed=plan["seed"])
        captured = []

        def hook(spy, target, t):
            if spy.spec["id"] == 0 and target.root is target and "kid" in target.universe.columns:
                captured.append((t, target.universe["kid"].to_numpy(dtype=float, na_value=float("nan")).copy()))

        from . import taps as _taps

        _taps.install(bt)
        sim = drive_engine.EngineSim(bt, plan, set())
        sim.light = True
        sim.spy_hook = hook
        rng.pin_globals(plan["seed"])
        nexc = None
        try:
            sim.setup()
            sim.bkt.run()
        except Exception as e:  # noqa
            nexc = e
        finally:
            _taps.set_current(None)
        if sim.root is None or alone.root is None:
            return dict(viol=[], fired=fired, nontrivial=False, info={"setup_failed": 1})
        a_last = _last_complete(alone, aexc)
        n_last = _last_complete(sim, nexc)
        if (aexc is None) != (nexc is None):
            info["exception_one_side"] = 1
        if nexc is not None and any(str(nexc).startswith(st) for st in drive_tree.SIZING_STEMS):
            # the run died from the known sizing-search defect (C05/C10): blocked, not judged here
            viol.append({"check": "C10.sizing_exception", "detail": str(nexc)[:100], "flags": {"stem": str(nexc)[:24]}})
        elif isinstance(nexc, ZeroDivisionError) and "Could not update parent " in str(nexc):
            # the parent itself sits on a zero base (drained by flows): legitimate, and not about the child
            info["parent_zero_base"] = 1
        elif aexc is None and nexc is not None:
            viol.append({"check": "c09_nested_fails", "detail": "stand-alone run completes but the nested run raises at %s: %s: %s" % (sim.root.now, type(nexc).__name__, str(nexc)[:160]), "flags": {"exc": type(nexc).__name__}})
        if a_last is None or n_last is None:
            return dict(viol=viol, fired=fired, nontrivial=False, info=info)
        lim = min(a_last, n_last)
        pa = alone.root.prices.loc[:lim]
        kid = sim.root.children["kid"]
        pn = kid.prices.loc[:lim]
        xa = pa.to_numpy(dtype=float)
        xn = pn.to_numpy(dtype=float)
        if len(xa) != len(xn) or xa.tobytes() != xn.tobytes():
            bad = [i for i in range(min(len(xa), len(xn))) if xa[i] != xn[i]]
            i = bad[0] if bad else min(len(xa), len(xn))
            viol.append({"check": "c09_index", "detail": "funding mode %s: nested index[%s]=%r, stand-alone index=%r" % (plan["mode"], pa.index[min(i, len(pa) - 1)], xn[i] if i < len(xn) else None, xa[i] if i < len(xa) else None), "flags": {"mode": plan["mode"]}})
        else:
            for t, col in captured:
                k = t + 2  # rows 0..t+1 (synthetic row + t+1 real dates) are dated <= now
                if k > len(xa):
                    continue
                if col[:k].tobytes() != xa[:k].tobytes():
                    bad = [i for i in range(k) if not (col[i] == xa[i] or (col[i] != col[i] and xa[i] != xa[i]))]
                    if bad:
                        viol.append({"check": "c09_universe", "detail": "on date #%d the parent sees universe['kid'][%d]=%r, the child's index is %r" % (t, bad[0], col[bad[0]], xa[bad[0]]), "flags": {}})
                        break
        nontriv = bool(len(xa) and (np.abs(xa - 100.0) > 1e-9).any())
        info["universe_reads"] = len(captured)
        return dict(viol=viol, fired=fired, nontrivial=nontriv, info=info, dates=len(sim.dates) * 2, steps=len(sim.spy_log))

    def owns(self, check):
        return check.startswith("c09_")

    def simplifications(self, plan):
        return drive_engine.simplifications(plan)
