"""Tree specs (plain data) -> real bt trees through every constructor path."""

SEC_CLASSES = ("Security", "FixedIncomeSecurity", "CouponPayingSecurity", "HedgeSecurity", "CouponPayingHedgeSecurity")


def walk(spec, path=()):
    p = path + (spec["name"],)
    yield p, spec
    if spec["k"] == "S":
        for c in spec.get("children", []):
            for x in walk(c, p):
                yield x


def strategies(spec):
    return [(p, s) for p, s in walk(spec) if s["k"] == "S"]


def securities(spec):
    return [(p, s) for p, s in walk(spec) if s["k"] == "X"]


def candidates(sspec, tickers):
    """children an op on this strategy may name: declared children, or any ticker if none declared."""
    ch = sspec.get("children", [])
    if not ch:
        return [{"k": "X", "name": t, "cls": "Security", "mult": 1.0, "decl": "none"} for t in tickers]
    return ch


def gen_tree(rng, tickers, fi=False, shape=None, allow_coupon=False):
    shape = shape or rng.choice(["flat", "flat", "nested", "nested", "deep", "open"])

    def sec(t):
        if fi:
            cls = rng.choice(["FixedIncomeSecurity", "CouponPayingSecurity", "CouponPayingSecurity", "HedgeSecurity", "CouponPayingHedgeSecurity", "Security"])
        elif allow_coupon and rng.random() < 0.3:
            cls = rng.choice(["CouponPayingSecurity", "FixedIncomeSecurity"])
        else:
            cls = "Security"
        mult = rng.choice([1.0, 1.0, 1.0, 10.0, 100.0, 0.1])
        decl = rng.choice(["obj", "obj", "lazy", "str"])
        if decl == "str":
            cls, mult = "Security", 1.0
        out = {"k": "X", "name": t, "cls": cls, "mult": mult, "decl": decl}
        if cls == "CouponPayingSecurity" and decl == "obj" and rng.random() < 0.25:
            out["fi_flag"] = False  # built with fixed_income=False: carry as ever, notional by market value
        return out

    scls = "FixedIncomeStrategy" if fi else None

    def strat(name, depth):
        cls = scls or rng.choice(["StrategyBase", "Strategy"])
        how = rng.choice(["list", "list", "dict", "parent"]) if not fi else rng.choice(["list", "dict"])
        return {"k": "S", "name": name, "cls": cls, "fi": fi, "how": how, "children": []}

    root = strat("root", 0)
    root["how"] = rng.choice(["list", "dict"])
    if shape == "open":
        return root
    if shape == "flat":
        k = rng.randint(1, len(tickers))
        root["children"] = [sec(t) for t in rng.sample(tickers, k)]
        return root
    nsub = rng.randint(1, 3)
    for i in range(nsub):
        s = strat("s%d" % (i + 1), 1)
        k = rng.randint(1, min(3, len(tickers)))
        s["children"] = [sec(t) for t in rng.sample(tickers, k)]
        if rng.random() < 0.15 and not fi:
            s["children"] = []  # open sub-strategy: may trade any ticker
        if shape == "deep" and rng.random() < 0.6:
            g = strat("g%d" % (i + 1), 2)
            k = rng.randint(1, min(2, len(tickers)))
            g["children"] = [sec(t) for t in rng.sample(tickers, k)]
            s["children"].append(g)
        root["children"].append(s)
    if rng.random() < 0.5:
        used = set()
        for t in rng.sample(tickers, rng.randint(1, min(2, len(tickers)))):
            if t not in used:
                root["children"].append(sec(t))
                used.add(t)
    rng.shuffle(root["children"])
    return root


def model_spec(spec):
    """what the reference model needs (lazy / undeclared children are created on first trade)."""
    if spec["k"] == "S":
        return {"k": "S", "name": spec["name"], "fi": spec.get("fi", False), "children": [model_spec(c) for c in spec.get("children", []) if c["k"] == "S" or c.get("decl") == "obj"]}
    return {"k": "X", "name": spec["name"], "cls": spec["cls"], "mult": spec["mult"], "fi_flag": spec.get("fi_flag", True)}


def build(bt, spec, algos_for=None):
    """Construct the real tree.  algos_for(path) -> list of algos for bt.Strategy nodes (engine driver)."""
    core = bt.core

    templates = {}

    def mk_sec(s):
        if spec.get("share_templates"):
            # one node object per distinct declaration, handed to every constructor that declares it (a template)
            key = (s["cls"], s["name"], s["mult"], s["decl"], s.get("fi_flag"))
            if key not in templates:
                templates[key] = mk_sec_new(s)
            return templates[key]
        return mk_sec_new(s)

    def mk_sec_new(s):
        cls = getattr(core, s["cls"])
        if "fi_flag" in s:
            # the documented constructor flag of the coupon-paying classes: notional = market value instead of par
            return cls(s["name"], multiplier=s["mult"], fixed_income=bool(s["fi_flag"]), lazy_add=(s["decl"] == "lazy"))
        return cls(s["name"], multiplier=s["mult"], lazy_add=(s["decl"] == "lazy"))

    def split(s, p):
        normal, late = [], []
        for c in s.get("children", []):
            if c["k"] == "S" and c.get("how") == "parent" and c["cls"] != "FixedIncomeStrategy":
                late.append(c)
            else:
                normal.append((c, mk(c, p)))
        if not normal:
            kids = None
        elif s.get("how") == "dict":
            kids = {c["name"]: k for c, k in normal}
        else:
            kids = [k for _c, k in normal]
        return kids, late

    def construct(s, p, kids, parent):
        cls = getattr(core, s["cls"])
        kw = {}
        if parent is not None:
            kw["parent"] = parent
        if s["cls"] == "StrategyBase":
            return cls(s["name"], children=kids, **kw)
        algos = algos_for(p) if algos_for else None
        return cls(s["name"], algos=algos, children=kids, **kw)

    def mk(s, path, parent=None):
        p = path + (s["name"],)
        if s["k"] == "X":
            return s["name"] if s["decl"] == "str" else mk_sec(s)
        kids, late = split(s, p)
        node = construct(s, p, kids, parent)
        for c in late:
            mk(c, p, parent=node)  # registers itself in `node` (no deep copy)
        return node

    root = mk(spec, ())

    def preset(s, node):
        # a setting made on part of the tree before anything is pushed from the top (the tree is then in a mixed state)
        if s["k"] != "S":
            return
        for c in s.get("children", []):
            if c["k"] == "S" and c["name"] in node.children:
                preset(c, node.children[c["name"]])
        if "pre_int" in s:
            node.use_integer_positions(bool(s["pre_int"]))

    preset(spec, root)
    return root
