"""bin/check <ID> [--tier quick|thorough] [--replay path]"""
import os
import sys

HERE = os.path.dirname(os.path.abspath(__file__))
ROOT = os.path.dirname(HERE)

PIN = {"PYTHONHASHSEED": "0", "OMP_NUM_THREADS": "1", "OPENBLAS_NUM_THREADS": "1", "MKL_NUM_THREADS": "1", "MPLBACKEND": "Agg", "TQDM_DISABLE": "1", "PYTHONWARNINGS": "ignore"}


def main():
    if os.environ.get("BT_VERIF_PINNED") != "1":
        env = dict(os.environ)
        env.update(PIN)
        if "VERIF_HASHSEED" in env:
            env["PYTHONHASHSEED"] = env["VERIF_HASHSEED"]
        env["BT_VERIF_PINNED"] = "1"
        os.execve(sys.executable, [sys.executable, "-u", os.path.abspath(__file__)] + sys.argv[1:], env)
    sys.path.insert(0, ROOT)
    import argparse

    from sim import checks, rng, runner

    ap = argparse.ArgumentParser()
    ap.add_argument("prop")
    ap.add_argument("--tier", default=os.environ.get("VERIF_TIER", "quick"))
    ap.add_argument("--replay")
    ap.add_argument("--mkwitness")
    a = ap.parse_args()
    if a.prop not in checks.SPECS:
        print("HARNESS-ERROR: unknown property %s" % a.prop)
        return 2
    spec = checks.SPECS[a.prop]
    try:
        if a.replay:
            return runner.do_replay(spec, a.replay)
        if a.mkwitness:
            return runner.make_witness(spec, a.mkwitness, rng.master_seed())
        tier = a.tier if a.tier in ("quick", "thorough") else "quick"
        return runner.main_check(spec, tier, rng.master_seed())
    except Exception:
        import traceback

        traceback.print_exc()
        print("HARNESS-ERROR: %s" % a.prop)
        return 2


if __name__ == "__main__":
    sys.exit(main())
