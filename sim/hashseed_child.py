"""child of the C11 check: recompute the alone-digests of one plan in a fresh interpreter (own PYTHONHASHSEED)"""
import json
import os
import sys

sys.path.insert(0, os.path.dirname(os.path.dirname(os.path.abspath(__file__))))


def main():
    req = json.loads(sys.stdin.read())
    from sim import build, checks

    bt = build.load(req["snap"], compiled=req["compiled"])
    out = checks.SPECS["C11"].digests_alone(bt, req["plan"], reverse=True)
    print(json.dumps(out))


main()
